package main

// COV-7: whether the store's data file is reused is not decided from one footer's own segment list (C11, C20, C04).

import (
	"golang.org/x/tools/go/ssa"
)

func init() {
	register(&Rule{
		ID: "COV-7",
		Doc: "Starting a new data file is a decision about the whole footer tree: no branch condition that controls a call of Store.startFileLOCKED is computed from len(<footer>.SegmentLocs) " +
			"(or from a SegmentLocs value of one footer): a store whose top-level collection never received data keeps all its segments in child footers, and a test of the top-level " +
			"list starts a new file for every round - loadSegments then fails with 'fref mismatch' for ever and nothing after the first round is persisted (D21's shape, through a guard " +
			"instead of an index). Footer.fileRef / mmapRef, which walk the children, are the tree-aware measures.",
		Props: []string{"C11", "C20", "C04"},
		Floor: 1,
		Run:   ruleCov7,
	})
}

func ruleCov7(c *Ctx) []*Ob {
	o := newObs(c, "COV-7")
	sf := c.Fn("(*Store).startFileLOCKED")
	fSL := c.Field("Footer", "SegmentLocs")
	for _, f := range c.Funcs {
		if c.isHarness(f) {
			continue
		}
		// the deciders: functions that hand a FileRef back and may start a new file for it (startOrReuseFile and
		// whatever it is refactored into); compact()'s "nothing to compact" early return is not a reuse decision
		res := f.Signature.Results()
		decider := false
		for k := 0; k < res.Len(); k++ {
			if typeName(res.At(k).Type()) == "FileRef" {
				decider = true
			}
		}
		if !decider || f == sf {
			continue
		}
		fn := c.fname(f)
		for _, k := range callsToFn(f, sf) {
			bad := ""
			for _, iff := range controllingIfs(k) {
				condSlice(iff.Cond, func(w ssa.Value) bool {
					call, ok := w.(*ssa.Call)
					if !ok {
						return false
					}
					bi, isBi := call.Call.Value.(*ssa.Builtin)
					if !isBi || bi.Name() != "len" {
						return false
					}
					backSlice(call.Call.Args[0], func(x ssa.Value) bool {
						if fv, _ := loadedField(x); fv == fSL {
							bad = c.instrPos(iff)
						}
						// slocs, _ := footer.segmentLocs()
						if e, isE := x.(*ssa.Extract); isE {
							if kk, isC := e.Tuple.(*ssa.Call); isC {
								if h := kk.Call.StaticCallee(); h != nil && h.Name() == "segmentLocs" {
									bad = c.instrPos(iff)
								}
							}
						}
						return false
					})
					return false
				})
			}
			if bad == "" {
				o.add(fn, "new data file not decided from one footer's SegmentLocs", c.instrPos(k), true, "no controlling condition measures a single footer's segment list")
			} else {
				o.add(fn, "new data file not decided from one footer's SegmentLocs", c.instrPos(k), false,
					"whether a new data file is started depends on the length of one footer's own SegmentLocs ("+bad+"): with all data in child collections that list is empty, every round starts a new file and fails with 'fref mismatch', and nothing after the first round is persisted")
			}
		}
	}
	return o.list
}
