package main

// IDX-*: the structural clauses of C14 (lookups do not depend on the segment
// key index). Decided: the index can only narrow where a key is searched,
// never decide that it was found, and it is filled strictly in sampling order
// until it first reports full. Not decided: the window arithmetic of lookup.

import (
	"go/token"
	"go/types"

	"golang.org/x/tools/go/ssa"
)

func init() {
	register(&Rule{
		ID: "IDX-1",
		Doc: "The index is filled in sampling order and stops at the first refusal: in segment.buildIndex the boolean result of segmentKeysIndex.add is tested, and from the edge on which add " +
			"returned false no further add call is reachable. Entry n of the index must be the key at position n*hop; adding shorter keys after one was refused shifts every later slot.",
		Props: []string{"C14"},
		Floor: 1,
		Run:   ruleIdx1,
	})
	register(&Rule{
		ID: "IDX-2",
		Doc: "The index narrows, the keys decide: in segment.findKeyPos every return of a position other than the constant -1 lies behind the `== 0` edge of a bytes.Compare between a stored key " +
			"and the probe key. A window returned by the index is never itself taken as a hit (an absent probe would read its neighbour's value).",
		Props: []string{"C14", "C10"},
		Floor: 1,
		Run:   ruleIdx2,
	})
	register(&Rule{
		ID: "IDX-3",
		Doc: "One way into the index: segmentKeysIndex.lookup is called only by segment.searchIndex, behind the `index != nil` edge, and searchIndex's other return is the full range (0, Len()); " +
			"findKeyPos and findStartKeyInclusivePos obtain their search window only from searchIndex. With and without an index the same search loop runs, only its initial bounds differ.",
		Props: []string{"C14"},
		Floor: 2,
		Run:   ruleIdx3,
	})
}

func ruleIdx1(c *Ctx) []*Ob {
	o := newObs(c, "IDX-1")
	add := c.Fn("(*segmentKeysIndex).add")
	n := 0
	for _, f := range c.Funcs {
		if c.isHarness(f) {
			continue
		}
		for _, k := range callsToFn(f, add) {
			n++
			k := k
			again := false
			walk(after(k), walkOpts{
				noInline: true,
				visit: func(i ssa.Instruction, t *tracker) bool {
					if cc, ok := i.(*ssa.Call); ok && cc.Call.StaticCallee() == add {
						again = true
						return true
					}
					return again
				},
				edge: func(from, to *ssa.BasicBlock, label string, cond ssa.Value, onTrue bool, _ *tracker) bool {
					return again || (cond == ssa.Value(k) && onTrue) // add reported room: continuing is fine
				},
			})
			why := "after add returned false no further add is reachable"
			if again {
				why = "an add call is reachable after add returned false (or its result is not tested): keys keep being appended after one was refused, so slot n is no longer the key at position n*hop and lookup windows miss present keys"
			}
			o.add(c.fname(f), "call segmentKeysIndex.add", c.instrPos(k), !again, why)
		}
	}
	if n == 0 {
		o.add("-", "call segmentKeysIndex.add", "-", false, "anchor lost: nothing fills the key index")
	}
	return o.list
}

func ruleIdx2(c *Ctx) []*Ob {
	o := newObs(c, "IDX-2")
	f := c.Fn("(*segment).findKeyPos")
	fn := c.fname(f)
	var keyParam *ssa.Parameter
	for _, p := range f.Params {
		if p.Name() == "key" {
			keyParam = p
		}
	}
	if keyParam == nil && len(f.Params) > 1 {
		keyParam = f.Params[1]
	}
	// `bytes.Compare(stored, key) == 0` edges
	eqEdge := func(from, to *ssa.BasicBlock, cond ssa.Value, onTrue bool) bool {
		b, ok := cond.(*ssa.BinOp)
		if !ok || (b.Op != token.EQL && b.Op != token.NEQ) {
			return false
		}
		x, y := b.X, b.Y
		if k, isK := x.(*ssa.Const); isK && k.Value != nil {
			x, y = y, x
		}
		k, isK := y.(*ssa.Const)
		if !isK || k.Value == nil || k.Int64() != 0 {
			return false
		}
		cmpOK := false
		for _, og := range origins(x) {
			if call, isC := og.(*ssa.Call); isC && isStaticCall(call, "bytes", "Compare") {
				hasKey := false
				for _, a := range call.Call.Args {
					for _, ag := range origins(a) {
						if ag == ssa.Value(keyParam) {
							hasKey = true
						}
					}
				}
				if hasKey {
					cmpOK = true
				}
			}
		}
		return cmpOK && (b.Op == token.EQL) == onTrue
	}
	n := 0
	eachInstr(f, func(i ssa.Instruction) {
		r, ok := i.(*ssa.Return)
		if !ok || len(r.Results) < 1 {
			return
		}
		if k, isK := r.Results[0].(*ssa.Const); isK && k.Value != nil && k.Int64() == -1 {
			return
		}
		n++
		okk := mustPrecede(f, i, neverInstr, eqEdge)
		why := "a position is reported only behind bytes.Compare(stored key, key) == 0"
		if !okk {
			why = "a position other than -1 is returned on a path that did not compare the stored key with the probe key for equality: a window from the key index (or a guess) is taken as a hit, and Get of an absent key returns a neighbour's value"
		}
		o.add(fn, "return position "+accessPath(r.Results[0]), c.instrPos(i), okk, why)
	})
	if n == 0 {
		o.add(fn, "return of a found position", c.pos(f.Pos()), false, "anchor lost: findKeyPos never returns a position")
	}
	return o.list
}

func ruleIdx3(c *Ctx) []*Ob {
	o := newObs(c, "IDX-3")
	lookup := c.Fn("(*segmentKeysIndex).lookup")
	si := c.Fn("(*segment).searchIndex")
	fIndex := c.Field("segment", "index")
	// who calls lookup
	for _, f := range c.Funcs {
		if c.isHarness(f) {
			continue
		}
		for _, k := range callsToFn(f, lookup) {
			ok := f == si && mustPrecede(f, k, neverInstr, nilFieldEdge(fIndex, false))
			why := "called by searchIndex behind index != nil"
			if f != si {
				why = "the key index is consulted outside segment.searchIndex: a second reader of the window has its own idea of the no-index fallback"
			} else if !ok {
				why = "lookup is reachable with a nil index"
			}
			o.add(c.fname(f), "call segmentKeysIndex.lookup", c.instrPos(k), ok, why)
		}
	}
	// the fallback is the full range
	lenFn := c.Fn("(*segment).Len")
	eachInstr(si, func(i ssa.Instruction) {
		r, ok := i.(*ssa.Return)
		if !ok || len(r.Results) != 2 {
			return
		}
		fromLookup := false
		for _, og := range origins(r.Results[1]) {
			if e, isE := og.(*ssa.Extract); isE {
				if call, isC := e.Tuple.(*ssa.Call); isC && call.Call.StaticCallee() == lookup {
					fromLookup = true
				}
			}
		}
		if fromLookup {
			return
		}
		lo, isK := r.Results[0].(*ssa.Const)
		okLo := isK && lo.Value != nil && lo.Int64() == 0
		okHi := false
		for _, og := range origins(r.Results[1]) {
			if call, isC := og.(*ssa.Call); isC && call.Call.StaticCallee() == lenFn {
				okHi = true
			}
			if call, isC := og.(*ssa.Call); isC {
				if b, isB := call.Call.Value.(*ssa.Builtin); isB && b.Name() == "len" {
					okHi = false // len(kvs) is twice the number of entries
				}
			}
		}
		why := "without an index the window is the whole segment (0, Len())"
		if !okLo || !okHi {
			why = "the no-index window is not (0, a.Len()): segments without a key index are searched in a different range than indexed ones"
		}
		o.add(c.fname(si), "fallback window", c.instrPos(i), okLo && okHi, why)
	})
	// both searches take their window from searchIndex
	for _, name := range []string{"(*segment).findKeyPos", "(*segment).findStartKeyInclusivePos"} {
		f := c.Fn(name)
		ks := callsToFn(f, si)
		ok := len(ks) >= 1
		why := "the search window comes from searchIndex"
		if !ok {
			why = "the function no longer takes its search window from searchIndex: point lookups and range bounds can disagree on where a key may be"
		}
		o.add(c.fname(f), "window from searchIndex", c.pos(f.Pos()), ok, why)
	}
	return o.list
}

func init() {
	register(&Rule{
		ID: "IDX-4",
		Doc: "add says 'full' when it is: in segmentKeysIndex.add a return of true (keep going) lies behind the hop test's mismatch edge (`keyIdx % hop != 0`: this key is simply not sampled) or " +
			"after the key was appended (store to numKeys); every other path - no slot or no bytes left - returns false, which is what makes buildIndex stop (IDX-1).",
		Props: []string{"C14", "C19"},
		Floor: 1,
		Run:   ruleIdx4,
	})
}

func ruleIdx4(c *Ctx) []*Ob {
	o := newObs(c, "IDX-4")
	f := c.Fn("(*segmentKeysIndex).add")
	fn := c.fname(f)
	fHop := c.Field("segmentKeysIndex", "hop")
	fNum := c.Field("segmentKeysIndex", "numKeys")
	hopMismatch := func(from, to *ssa.BasicBlock, cond ssa.Value, onTrue bool) bool {
		b, ok := cond.(*ssa.BinOp)
		if !ok || (b.Op != token.EQL && b.Op != token.NEQ) {
			return false
		}
		x, y := b.X, b.Y
		if isZeroConst(x) {
			x, y = y, x
		}
		if !isZeroConst(y) {
			return false
		}
		rem, isB := x.(*ssa.BinOp)
		if !isB || rem.Op != token.REM {
			return false
		}
		if fv, _ := loadedField(rem.Y); fv != fHop {
			return false
		}
		return (b.Op == token.NEQ) == onTrue
	}
	appended := func(i ssa.Instruction) bool {
		st, ok := i.(*ssa.Store)
		if !ok {
			return false
		}
		fv, _ := asFieldAddr(st.Addr)
		return fv == fNum
	}
	n := 0
	eachInstr(f, func(i ssa.Instruction) {
		r, ok := i.(*ssa.Return)
		if !ok || len(r.Results) != 1 {
			return
		}
		k, isK := r.Results[0].(*ssa.Const)
		if isK && k.Value != nil && k.Value.String() == "false" {
			return
		}
		n++
		okk := mustPrecede(f, i, appended, hopMismatch)
		why := "true is returned only for a key that is not sampled or after the key was appended"
		if !okk {
			why = "add can return true (room left) on a path that neither appended the key nor skipped it for the hop: a key that did not fit is passed over silently, later shorter keys are appended, and slot n no longer holds the key at position n*hop - lookups on persisted segments miss present keys"
		}
		o.add(fn, "return "+accessPath(r.Results[0]), c.instrPos(i), okk, why)
	})
	if n == 0 {
		o.add(fn, "return true", c.pos(f.Pos()), false, "anchor lost: add never reports room")
	}
	return o.list
}

func init() {
	register(&Rule{
		ID: "IDX-5",
		Doc: "Every narrowed window end is justified by an indexed key: in segmentKeysIndex.lookup a return whose rightPos is anything but srcKeyCount (or the zero of the 'smaller than the first key' " +
			"case) lies behind an edge that established `probe <= some indexed key` (a bytes.Compare involving the probe: == 0, probe < X, or not X < probe), and a return whose leftPos is anything " +
			"but 0 lies behind an edge that established `some indexed key <= probe`. The index may be truncated (it stops when its byte budget is used up), so beyond the last indexed key only " +
			"the end of the segment bounds the window - a hop-wide or index-wide right end loses the un-indexed tail.",
		Props: []string{"C14", "C09", "C10"},
		Floor: 2,
		Run:   ruleIdx5,
	})
	register(&Rule{
		ID: "IDX-7",
		Doc: "An index entry is the whole sampled key: in segmentKeysIndex.add the bytes copied into the index and the length added to numKeyBytes come from the key parameter itself, " +
			"not from a re-slice of it (a truncated prefix sorts below earlier keys that share it and misdirects lookup).",
		Props: []string{"C14"},
		Floor: 1,
		Run:   ruleIdx7,
	})
}

func ruleIdx5(c *Ctx) []*Ob {
	o := newObs(c, "IDX-5")
	f := c.Fn("(*segmentKeysIndex).lookup")
	fn := c.fname(f)
	fSrc := c.Field("segmentKeysIndex", "srcKeyCount")
	var probe *ssa.Parameter
	for _, p := range f.Params {
		if p.Name() == "key" {
			probe = p
		}
	}
	if probe == nil && len(f.Params) > 1 {
		probe = f.Params[1]
	}
	// relation between the probe and the other Compare argument established on an edge: "<", "<=", "==", ">", ">=" (probe REL indexed), "" if none
	probeRel := func(cond ssa.Value, onTrue bool) string {
		b, ok := cond.(*ssa.BinOp)
		if !ok {
			return ""
		}
		x, y := b.X, b.Y
		op := b.Op
		if isZeroConst(x) {
			x, y = y, x
			switch op {
			case token.LSS:
				op = token.GTR
			case token.GTR:
				op = token.LSS
			case token.LEQ:
				op = token.GEQ
			case token.GEQ:
				op = token.LEQ
			}
		}
		if !isZeroConst(y) {
			return ""
		}
		var call *ssa.Call
		for _, og := range origins(x) {
			if cl, isC := og.(*ssa.Call); isC && isStaticCall(cl, "bytes", "Compare") {
				if call != nil && call != cl {
					return "" // a variable that may hold several comparisons: undecided, treated as no evidence
				}
				call = cl
			}
		}
		if call == nil || len(call.Call.Args) != 2 {
			return ""
		}
		isProbe := func(v ssa.Value) bool {
			for _, og := range origins(v) {
				if og == ssa.Value(probe) {
					return true
				}
			}
			return false
		}
		probeFirst := isProbe(call.Call.Args[0])
		if !probeFirst && !isProbe(call.Call.Args[1]) {
			return ""
		}
		// cmp OP 0 with cmp = Compare(a, b) means a OP b
		if !onTrue {
			switch op {
			case token.LSS:
				op = token.GEQ
			case token.GEQ:
				op = token.LSS
			case token.GTR:
				op = token.LEQ
			case token.LEQ:
				op = token.GTR
			case token.EQL:
				op = token.NEQ
			case token.NEQ:
				op = token.EQL
			}
		}
		if !probeFirst { // a is the indexed key: flip to probe REL indexed
			switch op {
			case token.LSS:
				op = token.GTR
			case token.GTR:
				op = token.LSS
			case token.LEQ:
				op = token.GEQ
			case token.GEQ:
				op = token.LEQ
			}
		}
		return op.String()
	}
	upper := func(from, to *ssa.BasicBlock, cond ssa.Value, onTrue bool) bool {
		r := probeRel(cond, onTrue)
		return r == "<" || r == "<=" || r == "=="
	}
	lower := func(from, to *ssa.BasicBlock, cond ssa.Value, onTrue bool) bool {
		r := probeRel(cond, onTrue)
		return r == ">" || r == ">=" || r == "=="
	}
	var leaves func(v ssa.Value, d int, out *[]ssa.Value)
	leaves = func(v ssa.Value, d int, out *[]ssa.Value) {
		if d > 10 {
			*out = append(*out, v)
			return
		}
		for _, og := range origins(v) {
			switch x := og.(type) {
			case *ssa.BinOp:
				leaves(x.X, d+1, out)
				leaves(x.Y, d+1, out)
			case *ssa.Convert:
				leaves(x.X, d+1, out)
			default:
				*out = append(*out, og)
			}
		}
	}
	n := 0
	eachInstr(f, func(i ssa.Instruction) {
		r, ok := i.(*ssa.Return)
		if !ok || len(r.Results) != 2 {
			return
		}
		n++
		// right end
		var ls []ssa.Value
		leaves(r.Results[1], 0, &ls)
		plain := true
		for _, l := range ls {
			if fv, _ := loadedField(l); fv == fSrc {
				continue
			}
			if isZeroConst(l) {
				continue
			}
			plain = false
		}
		okR := plain || mustPrecede(f, i, neverInstr, upper)
		why := "the right end is the end of the segment, or an indexed key known to be >= the probe justifies it"
		if !okR {
			why = "rightPos (" + accessPath(r.Results[1]) + ") is narrower than the end of the segment on a path that never established `probe <= an indexed key`: when the index is truncated the probe's position may lie in the un-indexed tail beyond this window - Get misses present keys, range starts and ends come out wrong"
		}
		o.add(fn, "right end of the window", c.instrPos(i), okR, why)
		// left end
		ls = nil
		leaves(r.Results[0], 0, &ls)
		plain = true
		for _, l := range ls {
			if !isZeroConst(l) {
				plain = false
			}
		}
		okL := plain || mustPrecede(f, i, neverInstr, lower)
		why = "the left end is 0, or an indexed key known to be <= the probe justifies it"
		if !okL {
			why = "leftPos (" + accessPath(r.Results[0]) + ") is beyond 0 on a path that never established `an indexed key <= probe`: the probe's position may lie before this window"
		}
		o.add(fn, "left end of the window", c.instrPos(i), okL, why)
	})
	if n == 0 {
		o.add(fn, "returns of lookup", c.pos(f.Pos()), false, "anchor lost: lookup returns no window")
	}
	return o.list
}

func ruleIdx7(c *Ctx) []*Ob {
	o := newObs(c, "IDX-7")
	f := c.Fn("(*segmentKeysIndex).add")
	fn := c.fname(f)
	var key *ssa.Parameter
	for _, p := range f.Params {
		if p.Name() == "key" {
			key = p
		}
	}
	if key == nil {
		o.add(fn, "parameter key", c.pos(f.Pos()), false, "anchor lost: add has no key parameter")
		return o.list
	}
	whole := func(v ssa.Value) bool {
		ogs := origins(v)
		if len(ogs) == 0 {
			return false
		}
		for _, og := range ogs {
			if og != ssa.Value(key) {
				return false
			}
		}
		return true
	}
	n := 0
	eachInstr(f, func(i ssa.Instruction) {
		call, ok := i.(*ssa.Call)
		if !ok {
			return
		}
		b, isB := call.Call.Value.(*ssa.Builtin)
		if !isB || b.Name() != "copy" || len(call.Call.Args) != 2 {
			return
		}
		n++
		okk := whole(call.Call.Args[1])
		why := "the whole key is copied into the index"
		if !okk {
			why = "the bytes copied into the index are not always the key parameter itself (" + accessPath(call.Call.Args[1]) + "): a truncated or substituted entry no longer equals the key at position n*hop and misdirects lookup"
		}
		o.add(fn, "copy into the index", c.instrPos(i), okk, why)
	})
	if n == 0 {
		o.add(fn, "copy into the index", c.pos(f.Pos()), false, "anchor lost: add copies nothing into the index")
	}
	return o.list
}

func init() {
	register(&Rule{
		ID: "IDX-8",
		Doc: "The index knows how many entries the segment has: the srcKeyCount handed to newSegmentKeysIndex by segment.buildIndex is the segment's Len() (kvs/2), not a total of some kinds of " +
			"operations (the persisted TotOpsSet + TotOpsDel do not count Merge entries). lookup uses it as the right end of the window beyond the last indexed key (IDX-5).",
		Props: []string{"C14"},
		Floor: 1,
		Run:   ruleIdx8,
	})
}

func ruleIdx8(c *Ctx) []*Ob {
	o := newObs(c, "IDX-8")
	f := c.Fn("(*segment).buildIndex")
	fn := c.fname(f)
	nsi := c.Fn("newSegmentKeysIndex")
	lenFn := c.Fn("(*segment).Len")
	n := 0
	for _, k := range callsToFn(f, nsi) {
		if len(k.Call.Args) < 2 {
			continue
		}
		n++
		ok, cnt := true, 0
		for _, og := range origins(k.Call.Args[1]) {
			cnt++
			call, isC := og.(*ssa.Call)
			if !isC || call.Call.StaticCallee() != lenFn {
				ok = false
			}
		}
		ok = ok && cnt > 0
		why := "srcKeyCount is the segment's Len()"
		if !ok {
			why = "srcKeyCount is " + accessPath(k.Call.Args[1]) + ", not the segment's Len(): when it is smaller than the real number of entries (merge operations are not in the persisted totals) the window for probes beyond the last indexed key stops short of the segment's tail"
		}
		o.add(fn, "newSegmentKeysIndex srcKeyCount", c.instrPos(k), ok, why)
	}
	if n == 0 {
		o.add(fn, "newSegmentKeysIndex", c.pos(f.Pos()), false, "anchor lost")
	}
	return o.list
}

// ---------------------------------------------------------------- IDX-9

func init() {
	register(&Rule{
		ID: "IDX-9",
		Doc: "A search answers inside its window: every position returned by a function that takes its window from segment.searchIndex (findKeyPos, findStartKeyInclusivePos) is built from the window's ends, " +
			"arithmetic on them and constants - never from a quantity of the whole segment such as Len(). With a key index the window is a proper sub-range [i*hop, j*hop); " +
			"'the probe is beyond the window's last key' means position j, and only without an index is that the segment's end.",
		Props: []string{"C14", "C09"},
		Floor: 2,
		Run:   ruleIdx9,
	})
}

func ruleIdx9(c *Ctx) []*Ob {
	o := newObs(c, "IDX-9")
	si := c.Fn("(*segment).searchIndex")
	for _, f := range c.Funcs {
		ks := callsToFn(f, si)
		if len(ks) == 0 {
			continue
		}
		fn := c.fname(f)
		eachInstr(f, func(i ssa.Instruction) {
			r, ok := i.(*ssa.Return)
			if !ok {
				return
			}
			for _, res := range r.Results {
				bt, isB := res.Type().Underlying().(*types.Basic)
				if !isB || bt.Info()&types.IsInteger == 0 {
					continue
				}
				bad := ""
				seen := map[ssa.Value]bool{}
				var leafs func(v ssa.Value, d int)
				leafs = func(v ssa.Value, d int) {
					if seen[v] || d > 12 || bad != "" {
						return
					}
					seen[v] = true
					for _, og := range origins(v) {
						switch x := og.(type) {
						case *ssa.Const:
						case *ssa.BinOp:
							leafs(x.X, d+1)
							leafs(x.Y, d+1)
						case *ssa.Extract:
							if call, isC := x.Tuple.(*ssa.Call); isC && call.Call.StaticCallee() == si {
								continue
							}
							bad = accessPath(og)
						case *ssa.Phi:
							// origins resolves phis; a phi that survives is a loop-carried value: follow its edges
							for _, e := range x.Edges {
								leafs(e, d+1)
							}
						default:
							bad = accessPath(og)
						}
					}
				}
				leafs(res, 0)
				why := "the position is built from the window returned by searchIndex"
				if bad != "" {
					why = "the returned position derives from " + bad + ", which is not part of the window searchIndex returned: with a key index the window is a sub-range of the segment and the answer depends on the index settings"
				}
				o.add(fn, "returned position stays inside the window", c.instrPos(r), bad == "", why)
			}
		})
	}
	return o.list
}
