package main

// REF-15: a footer borrowed from Store.footer leaves the store's critical section only with a reference of its own (C02, C15).

import (
	"go/constant"
	"go/types"

	"golang.org/x/tools/go/ssa"
)

func init() {
	register(&Rule{
		ID: "REF-15",
		Doc: "Borrow inside, own outside: a *Footer loaded from Store.footer under Store.m is used after that critical section ends (a non-deferred Store.m.Unlock on the path) only if, " +
			"before the Unlock, it was retained (AddRef / segmentLocs on it) or taken over (Store.footer overwritten in the same section, so the local now holds the field's reference). " +
			"Otherwise a persist or compaction that swaps the footer between the Unlock and the late AddRef releases it first: the snapshot handed out holds a dead footer (no segments, " +
			"every Get nil) for its whole life. The nil branch is exempt.",
		Props: []string{"C02", "C15", "C03"},
		Floor: 3,
		Run:   ruleRef15,
	})
}

var ref15Left ssa.Value = ssa.NewConst(constant.MakeBool(false), types.Typ[types.Bool])

func ruleRef15(c *Ctx) []*Ob {
	o := newObs(c, "REF-15")
	fFooter := c.Field("Store", "footer")
	retain := map[string]bool{"AddRef": true, "segmentLocs": true}
	for _, f := range c.Funcs {
		if c.isHarness(f) {
			continue
		}
		fn := c.fname(f)
		lf := computeLockFlow(c, f, 0)
		for _, a := range fieldAccesses(f, func(v *types.Var) bool { return v == fFooter }) {
			if a.Kind != "load" || isFreshAlloc(a.Base) {
				continue
			}
			L, ok := a.Instr.(ssa.Value)
			if !ok {
				continue
			}
			if lf.at(a.Instr)&lockBit("Store") == 0 {
				continue // LOCK-1 judges unlocked reads
			}
			bad := ""
			walk(after(a.Instr), walkOpts{
				seed: []ssa.Value{L}, noInline: true,
				visit: func(i ssa.Instruction, t *tracker) bool {
					if bad != "" {
						return true
					}
					uses := false
					for _, op := range i.Operands(nil) {
						if op != nil && *op != nil && *op != ref15Left && t.vals[*op] {
							uses = true
						}
					}
					if !t.vals[ref15Left] {
						if ci, isCI := i.(ssa.CallInstruction); isCI && uses {
							cc := ci.Common()
							name := ""
							if sf := cc.StaticCallee(); sf != nil {
								name = sf.Name()
							} else if cc.IsInvoke() {
								name = cc.Method.Name()
							}
							if retain[name] && len(cc.Args) > 0 && t.vals[cc.Args[0]] {
								return true // retained inside the section
							}
						}
						if s, isS := i.(*ssa.Store); isS {
							if fv, base := asFieldAddr(s.Addr); fv == fFooter && base != nil && canonKey(base) == canonKey(a.Base) {
								return true // taken over: the field's reference now belongs to the local
							}
						}
						if tn, op, deferred := mutexOpOn(i); tn == "Store" && op == "Unlock" && !deferred {
							t.vals[ref15Left] = true
						}
						return false
					}
					// after the section
					if uses {
						switch i.(type) {
						case *ssa.Phi, *ssa.DebugRef:
							return false
						case *ssa.BinOp:
							return false // comparison with nil
						case *ssa.If:
							return false
						}
						bad = c.instrPos(i)
						return true
					}
					return false
				},
				edge: func(from, to *ssa.BasicBlock, label string, cond ssa.Value, onTrue bool, t *tracker) bool {
					return bad != "" || label == "nil"
				},
			})
			if bad == "" {
				o.add(fn, "borrow of Store.footer", c.instrPos(a.Instr), true, "the loaded footer is retained or taken over before Store.m is released, or not used afterwards")
			} else {
				o.add(fn, "borrow of Store.footer", c.instrPos(a.Instr), false,
					"the footer loaded from Store.footer is used at "+bad+" after Store.m was released, without AddRef / segmentLocs and without the field having been overwritten in that section: "+
						"a concurrent persist or compaction can swap and release it in between, and the reference then taken belongs to a footer whose segments are already gone")
			}
		}
	}
	return o.list
}
