package main

// R-INC: incarnation bookkeeping is consistent across the sibling
// tree-walkers (C11, C07, C04, C08).

import (
	"fmt"
	"go/token"
	"go/types"
	"sort"
	"strings"

	"golang.org/x/tools/go/ssa"
)

func init() {
	register(&Rule{
		ID: "INC-1",
		Doc: "Same-name comparison: every ==/!= between two incarNum fields compares counterparts of the same child name – each operand's base comes from a lookup in, or a range over, " +
			"one of the child maps (childCollections, childSegStacks, ChildFooters) with the same key value. Comparing a child with its parent (or with anything not keyed by the same name) is a violation.",
		Props: []string{"C11", "C07", "C04"},
		Floor: 3,
		Run:   ruleInc1,
	})
	register(&Rule{
		ID: "INC-2",
		Doc: "Constructors set the incarnation: every Footer / segmentStack / collection literal that is stored into a child map (childSegStacks, ChildFooters, childCollections), directly or as the " +
			"result of the function that builds it, stores incarNum. Exception: revertToSnapshot (revert is specified with the collection closed; restoreCollection renumbers the tree on the next open).",
		Props:      []string{"C11", "C07", "C04"},
		Floor:      4,
		Run:        ruleInc2,
		Exceptions: []string{"(*Store).revertToSnapshot: Footer literal without incarNum – revert happens with the collection closed; restoreCollection renumbers on the next open"},
	})
	register(&Rule{
		ID: "INC-3",
		Doc: "Every tree-walker recurses: each function of the frozen table of walkers over the collection / stack / footer / batch tree ranges over the child map of its subject and calls itself " +
			"inside that loop; and the value of Footer.ss (a stack that by construction has no childSegStacks) never flows into the subject parameter of a walker over childSegStacks.",
		Props: []string{"C11", "C07", "C04"},
		Floor: 9,
		Run:   ruleInc3,
	})
	register(&Rule{
		ID: "INC-4",
		Doc: "Base propagation: a tree-walker with a base parameter (segmentStack.merge, Store.writeSegments) passes to its recursive call a value looked up in base's child map by the child's name " +
			"(nil only on the incarnation-mismatch branch) – never an unconditional nil (MB-29664: operands below the splice point are dropped).",
		Props: []string{"C08", "C07"},
		Floor: 1,
		Run:   ruleInc4,
	})
}

func init() {
	register(&Rule{
		ID: "INC-5",
		Doc: "Fresh incarnations come from the hierarchy's counter: every store to an incarNum field takes its value either from another incarNum field (a copy for the same child) or from a load of " +
			"collection.highestIncarNum (a fresh number); and a function that assigns fresh numbers stores the incremented counter back into highestIncarNum, so that a child recreated later " +
			"never receives the number of a deleted predecessor.",
		Props: []string{"C11"},
		Floor: 5,
		Run:   ruleInc5,
	})
}

func ruleInc5(c *Ctx) []*Ob {
	o := newObs(c, "INC-5")
	fHigh := c.Field("collection", "highestIncarNum")
	for _, f := range c.Funcs {
		fn := c.fname(f)
		assignsFresh := false
		for _, a := range fieldAccesses(f, func(v *types.Var) bool { return isIncarNum(v) }) {
			if a.Kind != "store" {
				continue
			}
			st := a.Instr.(*ssa.Store)
			kind := ""
			bad := ""
			for _, og := range origins(st.Val) {
				fv, _ := loadedField(og)
				switch {
				case isIncarNum(fv):
					kind = "copy of " + accessPath(og)
				case fv == fHigh:
					kind = "fresh number from highestIncarNum"
					assignsFresh = true
				default:
					bad = accessPath(og)
				}
			}
			tn := typeName(a.Base.Type())
			construct := "store " + tn + ".incarNum"
			if bad != "" {
				o.add(fn, construct, c.instrPos(st), false,
					"the incarnation number comes from "+bad+", neither a copy of the same child's number nor the hierarchy's highestIncarNum counter: a recreated child can get the number of its deleted predecessor, whose persisted data then resurfaces")
			} else {
				o.add(fn, construct, c.instrPos(st), true, kind)
			}
		}
		if assignsFresh {
			// the counter must be advanced and stored back in this function
			stored := false
			for _, a := range fieldAccesses(f, func(v *types.Var) bool { return v == fHigh }) {
				if a.Kind != "store" || isFreshAlloc(a.Base) {
					continue
				}
				if bo, ok := a.Val.(*ssa.BinOp); ok && bo.Op == token.ADD {
					if fv, _ := loadedField(bo.X); fv == fHigh {
						stored = true
					}
				}
			}
			why := "highestIncarNum is incremented and stored back before it is handed out"
			if !stored {
				why = "fresh incarnation numbers are taken from highestIncarNum but the function never stores an incremented value back: the same number is handed out again"
			}
			o.add(fn, "highestIncarNum advanced", c.pos(f.Pos()), stored, why)
		}
	}
	return o.list
}

func isIncarNum(v *types.Var) bool { return v != nil && v.Name() == "incarNum" && v.IsField() }

var childMapNames = map[string]bool{"childCollections": true, "childSegStacks": true, "ChildFooters": true, "childBatches": true}

// childKeyOf: if v is an element of a child map (lookup or range value),
// return the map field and the key SSA value.
// childMapOf: the child-map field a map value stands for: a load of the field, or a local that holds either such
// a load or nil (`var m map[..]; if x != nil { m = x.ChildFooters }`).
func childMapOf(v ssa.Value) *types.Var {
	var out *types.Var
	for _, og := range origins(v) {
		if isNilConst(og) {
			continue
		}
		fv, _ := loadedField(og)
		if fv == nil || !childMapNames[fv.Name()] || (out != nil && out != fv) {
			return nil
		}
		out = fv
	}
	return out
}

func childKeyOf(v ssa.Value) (mapField *types.Var, key ssa.Value, ok bool) {
	switch x := v.(type) {
	case *ssa.Lookup:
		if fv := childMapOf(x.X); fv != nil {
			return fv, x.Index, true
		}
	case *ssa.Extract:
		switch t := x.Tuple.(type) {
		case *ssa.Lookup: // v, ok := m[k]
			if x.Index == 0 {
				if fv := childMapOf(t.X); fv != nil {
					return fv, t.Index, true
				}
			}
		case *ssa.Next: // for k, v := range m
			if x.Index == 2 {
				if rg, isR := t.Iter.(*ssa.Range); isR {
					if fv := childMapOf(rg.X); fv != nil {
						return fv, rangeKey(t), true
					}
				}
			}
		}
	}
	return nil, nil, false
}

// rangeKey returns the Extract #1 (key) of a Next instruction.
func rangeKey(n *ssa.Next) ssa.Value {
	if refs := n.Referrers(); refs != nil {
		for _, r := range *refs {
			if e, ok := r.(*ssa.Extract); ok && e.Index == 1 {
				return e
			}
		}
	}
	return n // no key extracted: use the Next itself as identity
}

func sameKey(a, b ssa.Value) bool {
	if a == b {
		return true
	}
	// both keys extracted from the same Next
	ea, oka := a.(*ssa.Extract)
	eb, okb := b.(*ssa.Extract)
	if oka && okb && ea.Tuple == eb.Tuple && ea.Index == eb.Index {
		return true
	}
	return false
}

// inc1Required: the pairings of a child with its same-name counterpart from another tree that must be
// guarded by an incarnation comparison (function that owns the pairing, the two child maps).
var inc1Required = []struct{ fn, mapA, mapB string }{
	{"(*collection).buildStackDirtyTop", "childCollections", "childSegStacks"},
	{"(*collection).appendChildStacks", "childCollections", "childSegStacks"},
	{"(*segmentStack).merge", "childSegStacks", "childSegStacks"},
	{"(*Store).buildNewFooter", "ChildFooters", "childSegStacks"},
	{"(*Store).mergeSegStacks", "ChildFooters", "childSegStacks"},
	{"(*Footer).spliceFooter", "ChildFooters", "ChildFooters"},
}

func ruleInc1(c *Ctx) []*Ob {
	o := newObs(c, "INC-1")
	type seenCmp struct{ fn, a, b string }
	var cmps []seenCmp
	for _, f := range c.Funcs {
		fn := c.fname(f)
		eachInstr(f, func(i ssa.Instruction) {
			b, ok := i.(*ssa.BinOp)
			if !ok {
				return
			}
			switch b.Op {
			case token.EQL, token.NEQ, token.LSS, token.LEQ, token.GTR, token.GEQ:
			default:
				return
			}
			fl, bl := loadedField(b.X)
			fr, br := loadedField(b.Y)
			if !isIncarNum(fl) || !isIncarNum(fr) {
				return
			}
			construct := fmt.Sprintf("compare %s.incarNum with %s.incarNum", accessPath(bl), accessPath(br))
			if b.Op != token.EQL && b.Op != token.NEQ {
				o.add(fn, construct, c.instrPos(i), false,
					"incarnation numbers are identities: comparing them with "+b.Op.String()+" instead of ==/!= lets a stale incarnation of a recreated child pass as current")
				return
			}
			type prov struct {
				m   *types.Var
				key ssa.Value
			}
			provOf := func(base ssa.Value) ([]prov, string) {
				var ps []prov
				for _, og := range originsDeep(c, base) {
					if isNilConst(og) {
						continue
					}
					m, k, ok := childKeyOf(og)
					if !ok {
						return nil, accessPath(og)
					}
					// a key that is a helper's parameter stands for the caller's argument
					for _, kk := range originsDeep(c, k) {
						ps = append(ps, prov{m, kk})
					}
				}
				return ps, ""
			}
			pl, badl := provOf(bl)
			pr, badr := provOf(br)
			if badl != "" || badr != "" || len(pl) == 0 || len(pr) == 0 {
				bad := badl
				if bad == "" {
					bad = badr
				}
				o.add(fn, construct, c.instrPos(i), false,
					fmt.Sprintf("operand %q is not an element of a child map: the child is compared with something that is not its same-name counterpart (e.g. its parent)", bad))
				return
			}
			for _, x := range pl {
				for _, y := range pr {
					if !sameKey(x.key, y.key) {
						o.add(fn, construct, c.instrPos(i), false,
							fmt.Sprintf("the operands are looked up under different keys (%s vs %s)", accessPath(x.key), accessPath(y.key)))
						return
					}
				}
			}
			o.add(fn, construct, c.instrPos(i), true,
				fmt.Sprintf("both operands are elements of %s / %s under the same key %s", pl[0].m.Name(), pr[0].m.Name(), accessPath(pl[0].key)))
			owner := fn
			if ow := onlyCalledFrom(c, f, inc1Owners(), 3); ow != "" {
				owner = ow
			}
			cmps = append(cmps, seenCmp{owner, pl[0].m.Name(), pr[0].m.Name()})
		})
	}
	// every required pairing is guarded by such a comparison (in the function or in a helper only it calls)
	for _, rq := range inc1Required {
		f := c.Fn(rq.fn)
		found := false
		for _, cm := range cmps {
			if cm.fn == rq.fn && ((cm.a == rq.mapA && cm.b == rq.mapB) || (cm.a == rq.mapB && cm.b == rq.mapA)) {
				found = true
			}
		}
		why := "the counterpart is used only after its incarnation was compared with the child's"
		if !found {
			why = fmt.Sprintf("%s pairs children of %s with their counterparts in %s without comparing incarnation numbers: after a delete + re-create of a child under the same name the previous incarnation's data is merged back in", rq.fn, rq.mapB, rq.mapA)
		}
		o.add(rq.fn, "incarnation comparison guards the "+rq.mapA+"/"+rq.mapB+" pairing", c.pos(f.Pos()), found, why)
	}
	return o.list
}

func inc1Owners() map[string]string {
	m := map[string]string{}
	for _, rq := range inc1Required {
		m[rq.fn] = ""
	}
	return m
}

// ---------------------------------------------------------------- INC-2

func treeTypeName(t types.Type) string {
	n := typeName(t)
	switch n {
	case "Footer", "segmentStack", "collection":
		return n
	}
	return ""
}

func ruleInc2(c *Ctx) []*Ob {
	o := newObs(c, "INC-2")
	except := map[string]bool{"(*Store).revertToSnapshot": true}
	doneLit := map[*ssa.Alloc]bool{}
	doneFn := map[string]bool{}
	var checkValue func(f *ssa.Function, v ssa.Value, via string)
	var checkCallee func(caller *ssa.Function, call *ssa.Call, callee *ssa.Function, idx int, via string)
	checkLiteral := func(f *ssa.Function, a *ssa.Alloc, via string) {
		if doneLit[a] {
			return
		}
		doneLit[a] = true
		tn := treeTypeName(a.Type())
		if tn == "" {
			return
		}
		fn := c.fname(f)
		fv := c.Field(tn, "incarNum")
		construct := "literal " + tn + " -> " + via
		if allocFieldStored(a, fv) {
			o.add(fn, construct, c.instrPos(a), true, "the literal stores incarNum")
			return
		}
		if except[fn] {
			o.trivial(fn, construct, c.instrPos(a), "table exception: revert with the collection closed, renumbered on the next open")
			return
		}
		o.add(fn, construct, c.instrPos(a), false,
			"the "+tn+" literal ends up in a child map without an incarnation number: siblings that compare incarnations take it for a previous incarnation and drop its data")
	}
	checkCallee = func(caller *ssa.Function, call *ssa.Call, callee *ssa.Function, idx int, via string) {
		if callee.Blocks == nil || callee.Pkg != c.Moss {
			return
		}
		// a returned parameter: the literal may come in through this call's argument
		eachInstr(callee, func(i ssa.Instruction) {
			r, ok := i.(*ssa.Return)
			if !ok || idx >= len(r.Results) {
				return
			}
			for _, og := range origins(r.Results[idx]) {
				if p, ok := og.(*ssa.Parameter); ok {
					for k, q := range callee.Params {
						if q == p && k < len(call.Call.Args) {
							pk := fmt.Sprintf("%s@%s#%d", c.fname(caller), c.instrPos(call), k)
							if !doneFn[pk] {
								doneFn[pk] = true
								checkValue(caller, call.Call.Args[k], via)
							}
						}
					}
				}
			}
		})
		key := fmt.Sprintf("%s#%d", c.fname(callee), idx)
		if doneFn[key] {
			return
		}
		doneFn[key] = true
		eachInstr(callee, func(i ssa.Instruction) {
			r, ok := i.(*ssa.Return)
			if !ok || idx >= len(r.Results) {
				return
			}
			checkValue(callee, r.Results[idx], via)
		})
	}
	checkValue = func(f *ssa.Function, v ssa.Value, via string) {
		for _, og := range origins(v) {
			switch x := og.(type) {
			case *ssa.Alloc:
				checkLiteral(f, x, via)
			case *ssa.Call:
				if callee := x.Call.StaticCallee(); callee != nil {
					checkCallee(f, x, callee, 0, via)
				}
			case *ssa.Extract:
				if call, ok := x.Tuple.(*ssa.Call); ok {
					if callee := call.Call.StaticCallee(); callee != nil {
						checkCallee(f, call, callee, x.Index, via)
					}
				}
			}
		}
	}
	for _, f := range c.Funcs {
		eachInstr(f, func(i ssa.Instruction) {
			mu, ok := i.(*ssa.MapUpdate)
			if !ok {
				return
			}
			fv, _ := loadedField(mu.Map)
			if fv == nil || !childMapNames[fv.Name()] || fv.Name() == "childBatches" {
				return
			}
			checkValue(f, mu.Value, fv.Name())
		})
	}
	return o.list
}

// ---------------------------------------------------------------- INC-3

type walker struct {
	fn   string
	maps []string // child map field names it must range over and recurse in
}

var walkerTable = []walker{
	{"(*collection).buildStackDirtyTop", []string{"childBatches", "childSegStacks"}},
	{"(*collection).appendChildStacks", []string{"childSegStacks"}},
	{"(*collection).appendChildLLSnapshot", []string{"childCollections"}},
	{"(*segmentStack).merge", []string{"childSegStacks"}},
	{"(*segmentStack).isEmpty", []string{"childSegStacks"}},
	{"(*segmentStack).ensureFullySorted", []string{"childSegStacks"}},
	{"(*Store).buildNewFooter", []string{"childSegStacks"}},
	{"(*Store).persistSegments", []string{"childSegStacks"}},
	{"(*Store).mergeSegStacks", []string{"childSegStacks"}},
	{"(*Footer).spliceFooter", []string{"ChildFooters"}},
	{"(*Store).writeSegments", []string{"childSegStacks"}},
	{"(*Footer).doLoadSegments", []string{"ChildFooters"}},
	{"(*Store).revertToSnapshot", []string{"ChildFooters"}},
	{"restoreCollection", []string{"ChildFooters"}},
	{"(*batch).readyDeferredSort", []string{"childBatches"}},
	{"(*batch).RequestSort", []string{"childBatches"}},
	{"(*batch).doSort", []string{"childBatches"}},
}

// rangeLoopsOver: the SCCs (loop bodies) of f that iterate a map loaded from a field named mapName.
func rangeLoopsOver(f *ssa.Function, mapName string) []map[*ssa.BasicBlock]bool {
	var out []map[*ssa.BasicBlock]bool
	eachInstr(f, func(i ssa.Instruction) {
		nx, ok := i.(*ssa.Next)
		if !ok {
			return
		}
		rg, ok := nx.Iter.(*ssa.Range)
		if !ok {
			return
		}
		fv, _ := loadedField(rg.X)
		if fv == nil || fv.Name() != mapName {
			return
		}
		if scc := sccOf(f, nx.Block()); scc != nil {
			out = append(out, scc)
		}
	})
	return out
}

func ruleInc3(c *Ctx) []*Ob {
	o := newObs(c, "INC-3")
	isWalkerOverSegStacks := map[*ssa.Function]bool{}
	for _, w := range walkerTable {
		f := c.Fn(w.fn)
		for _, mname := range w.maps {
			if mname == "childSegStacks" {
				isWalkerOverSegStacks[f] = true
			}
			loops := rangeLoopsOver(f, mname)
			construct := "range " + mname + " + recursive call"
			if len(loops) == 0 {
				o.add(w.fn, construct, c.pos(f.Pos()), false,
					"the walker no longer iterates "+mname+": child collections are skipped by this step of the tree walk")
				continue
			}
			rec := false
			var pos ssa.Instruction
			for _, scc := range loops {
				eachInstr(f, func(i ssa.Instruction) {
					ci, ok := i.(ssa.CallInstruction)
					if ok && ci.Common().StaticCallee() == f && scc[i.Block()] {
						rec = true
						pos = i
					}
				})
			}
			if w.fn == "(*segmentStack).isEmpty" {
				o.trivial(w.fn, "the loop over "+mname+" is reached", c.pos(f.Pos()), "table exception: an existential query - own segments already answer 'not empty' before the children are looked at")
			} else if bad := loopNotReached(c, f, mname); bad != "" {
				o.add(w.fn, "the loop over "+mname+" is reached", c.pos(f.Pos()), false, bad)
			} else {
				o.add(w.fn, "the loop over "+mname+" is reached", c.pos(f.Pos()), true,
					"every path to a successful return passes the loop, except where the subject is nil / the deleted marker or the map is empty")
			}
			if rec {
				o.add(w.fn, construct, c.instrPos(pos), true, "recursive call inside the loop over "+mname)
				// every way around the loop either recurses or passes an allowed skip edge
				for _, scc := range loops {
					if w.fn == "(*segmentStack).isEmpty" {
						o.trivial(w.fn, "no unlisted skip in the loop over "+mname, c.instrPos(pos), "table exception: an existential query - the first non-empty child answers 'not empty'")
					} else if bad := loopSkipsRecursion(c, f, scc, mname, true); bad != "" {
						o.add(w.fn, "no unlisted skip in the loop over "+mname, c.instrPos(pos), false, bad)
					} else {
						o.add(w.fn, "no unlisted skip in the loop over "+mname, c.instrPos(pos), true,
							"an iteration skips the recursive call only on a missing-counterpart, incarnation-mismatch, deleted-marker or already-processed edge")
					}
				}
			} else {
				o.add(w.fn, construct, c.pos(f.Pos()), false,
					"the loop over "+mname+" does not call the walker on the children: the subtree is not processed")
			}
		}
	}
	// discovered walkers: any other function that calls itself inside a range loop over a child map is a tree walker
	// too (refreshChildLLSnapshots, statsDeep, height, hasMergeOps, sameChildren, mmapRef, release walkers ...): the
	// same "no unlisted skip" obligation applies to each of its child loops
	inTable := map[*ssa.Function]bool{}
	for _, w := range walkerTable {
		inTable[c.Fn(w.fn)] = true
	}
	var mnames []string
	for mn := range childMapNames {
		mnames = append(mnames, mn)
	}
	sort.Strings(mnames)
	for _, f := range c.Funcs {
		if inTable[f] || c.isHarness(f) || f.Parent() != nil {
			continue
		}
		for _, mname := range mnames {
			for _, scc := range rangeLoopsOver(f, mname) {
				var pos ssa.Instruction
				eachInstr(f, func(i ssa.Instruction) {
					ci, ok := i.(ssa.CallInstruction)
					if ok && ci.Common().StaticCallee() == f && scc[i.Block()] {
						pos = i
					}
				})
				if pos == nil {
					continue
				}
				fn := c.fname(f)
				if bad := loopSkipsRecursion(c, f, scc, mname, false); bad != "" {
					o.add(fn, "no unlisted skip in the loop over "+mname, c.instrPos(pos), false, bad)
				} else {
					o.add(fn, "no unlisted skip in the loop over "+mname, c.instrPos(pos), true,
						"discovered walker: an iteration skips the recursive call only on a missing-counterpart, incarnation-mismatch, deleted-marker or already-processed edge")
				}
			}
		}
	}
	// Footer.ss must not flow into the subject of a walker over childSegStacks.
	fSS := c.Field("Footer", "ss")
	for _, f := range c.Funcs {
		fn := c.fname(f)
		eachInstr(f, func(i ssa.Instruction) {
			ci, ok := i.(ssa.CallInstruction)
			if !ok {
				return
			}
			callee := ci.Common().StaticCallee()
			if callee == nil || !isWalkerOverSegStacks[callee] {
				return
			}
			// which parameters of callee have their childSegStacks ranged?
			subj := subjectParams(callee, "childSegStacks")
			for _, pi := range subj {
				if pi >= len(ci.Common().Args) {
					continue
				}
				arg := ci.Common().Args[pi]
				tainted := false
				for _, og := range origins(arg) {
					if fv, _ := loadedField(og); fv == fSS {
						tainted = true
					}
				}
				if tainted {
					o.add(fn, fmt.Sprintf("Footer.ss -> %s(%s)", callee.Name(), callee.Params[pi].Name()), c.instrPos(i), false,
						"a footer's own segment stack (which never carries childSegStacks) is handed to a walker that finds children only through childSegStacks: every child collection vanishes from the result")
				}
			}
		})
	}
	return o.list
}

// loopNotReached: can the walker return successfully without ever starting its loop over the child map mname,
// other than because the subject whose children it walks is nil / the deleted marker, or the map is empty?
func loopNotReached(c *Ctx, f *ssa.Function, mname string) string {
	var subjects []ssa.Value
	isRange := func(i ssa.Instruction) bool {
		rg, ok := i.(*ssa.Range)
		if !ok {
			return false
		}
		fv, _ := loadedField(rg.X)
		return fv != nil && fv.Name() == mname
	}
	eachInstr(f, func(i ssa.Instruction) {
		if isRange(i) {
			_, base := loadedField(i.(*ssa.Range).X)
			if base != nil {
				subjects = append(subjects, origins(base)...)
			}
		}
	})
	if len(subjects) == 0 {
		return ""
	}
	isSubject := func(v ssa.Value) bool {
		for _, og := range origins(v) {
			for _, s := range subjects {
				if og == s {
					return true
				}
			}
		}
		return false
	}
	errIdx := -1
	if res := f.Signature.Results(); res.Len() > 0 && isErrorType(res.At(res.Len()-1).Type()) {
		errIdx = res.Len() - 1
	}
	bad := ""
	walk(entryPoint(f), walkOpts{
		noInline: true,
		visit: func(i ssa.Instruction, t *tracker) bool {
			if bad != "" || isRange(i) {
				return true
			}
			if r, ok := i.(*ssa.Return); ok {
				if errIdx >= 0 && len(r.Results) > errIdx && !isNilConst(r.Results[errIdx]) {
					return true // an error return
				}
				bad = "the walker can return at " + c.instrPos(i) + " without having started its loop over " + mname +
					" although its subject is there: an early exit that depends on the subject's own content (or on other state) skips the whole subtree of child collections"
				return true
			}
			return false
		},
		edge: func(from, to *ssa.BasicBlock, label string, cond ssa.Value, onTrue bool, _ *tracker) bool {
			if bad != "" {
				return true
			}
			b, ok := cond.(*ssa.BinOp)
			if !ok {
				return false
			}
			switch b.Op {
			case token.EQL, token.NEQ:
				x, y := b.X, b.Y
				if isNilConst(x) || isAnyGlobalLoad(x) {
					x, y = y, x
				}
				eq := (b.Op == token.EQL) == onTrue
				if (isNilConst(y) || isAnyGlobalLoad(y)) && isSubject(x) && eq {
					return true // no subject: nothing to walk
				}
				// the child map itself is nil
				if fv, base := loadedField(x); fv != nil && fv.Name() == mname && isNilConst(y) && base != nil && isSubject(base) && eq {
					return true
				}
				// len(map) == 0
				if base := lenOfField(x, mname); base != nil && isSubject(base) && isZeroConst(y) && eq {
					return true
				}
			case token.GTR, token.LEQ:
				// len(map) > 0 false edge / len(map) <= 0 true edge
				if base := lenOfField(b.X, mname); base != nil && isSubject(base) && isZeroConst(b.Y) && (b.Op == token.LEQ) == onTrue {
					return true
				}
			}
			return false
		},
	})
	return bad
}

func isAnyGlobalLoad(v ssa.Value) bool {
	u, ok := v.(*ssa.UnOp)
	if !ok || u.Op != token.MUL {
		return false
	}
	_, isG := u.X.(*ssa.Global)
	return isG
}

func isZeroConst(v ssa.Value) bool {
	k, ok := v.(*ssa.Const)
	return ok && k.Value != nil && k.Value.String() == "0"
}

// lenOfField: v is len(<base>.<fname>); returns base (nil otherwise).
func lenOfField(v ssa.Value, fname string) ssa.Value {
	call, ok := v.(*ssa.Call)
	if !ok || len(call.Call.Args) != 1 {
		return nil
	}
	if b, isB := call.Call.Value.(*ssa.Builtin); !isB || b.Name() != "len" {
		return nil
	}
	fv, base := loadedField(call.Call.Args[0])
	if fv == nil || fv.Name() != fname {
		return nil
	}
	return base
}

// loopSkipsRecursion: in the range loop over a child map, can an iteration
// complete without the walker's recursive call and without passing one of
// the allowed skip edges?
// directContinue: from block b the loop's Next is reached through unconditional jumps only.
func directContinue(b *ssa.BasicBlock) bool {
	for n := 0; n < 8; n++ {
		for _, i := range b.Instrs {
			if _, ok := i.(*ssa.Next); ok {
				return true
			}
		}
		if _, ok := b.Instrs[len(b.Instrs)-1].(*ssa.Jump); !ok || len(b.Succs) != 1 {
			return false
		}
		b = b.Succs[0]
	}
	return false
}

func loopSkipsRecursion(c *Ctx, f *ssa.Function, scc map[*ssa.BasicBlock]bool, mname string, earlyExit bool) string {
	// the Next instruction of this loop
	var next *ssa.Next
	for b := range scc {
		for _, i := range b.Instrs {
			if nx, ok := i.(*ssa.Next); ok {
				if rg, ok := nx.Iter.(*ssa.Range); ok {
					if fv, _ := loadedField(rg.X); fv != nil && fv.Name() == mname {
						next = nx
					}
				}
			}
		}
	}
	if next == nil {
		return ""
	}
	allowedSkip := func(from, to *ssa.BasicBlock, cond ssa.Value, onTrue bool) bool {
		if !scc[to] {
			return true // leaving the loop (return / break): not an iteration that skipped
		}
		switch x := cond.(type) {
		case *ssa.Extract:
			// `_, exists := childMap[name]` : the !exists edge
			if lk, ok := x.Tuple.(*ssa.Lookup); ok && x.Index == 1 {
				if fv, _ := loadedField(lk.X); fv != nil && childMapNames[fv.Name()] {
					return !onTrue
				}
			}
			// the range's own ok flag
			if _, ok := x.Tuple.(*ssa.Next); ok {
				return false
			}
		case *ssa.BinOp:
			if x.Op != token.EQL && x.Op != token.NEQ {
				return false
			}
			fl, _ := loadedField(x.X)
			fr, _ := loadedField(x.Y)
			if isIncarNum(fl) && isIncarNum(fr) {
				return (x.Op == token.NEQ) == onTrue // the mismatch edge
			}
			for _, opnd := range []ssa.Value{x.X, x.Y} {
				if isGlobalLoad(opnd, mossPath, "deletedChildBatchMarker") {
					return (x.Op == token.EQL) == onTrue
				}
			}
			// element of a child map compared with nil: "already processed" (non-nil) or "no counterpart" (nil)
			if isNilConst(x.Y) || isNilConst(x.X) {
				v := x.X
				if isNilConst(v) {
					v = x.Y
				}
				isChildElem := false
				for _, og := range origins(v) {
					if _, _, ok := childKeyOf(og); ok {
						isChildElem = true
					}
				}
				if isChildElem {
					// ... but only as the whole decision: the edge leads straight to the next iteration. A nil
					// test that is merely the first half of a longer condition ("has a counterpart and nothing new
					// came in: reuse it") does not license the skip the second half decides
					return directContinue(to)
				}
			}
		}
		return false
	}
	skipped := false
	start := after(next)
	walk(start, walkOpts{noInline: true,
		visit: func(i ssa.Instruction, t *tracker) bool {
			if i == ssa.Instruction(next) {
				skipped = true
				return true
			}
			if ci, ok := i.(ssa.CallInstruction); ok && ci.Common().StaticCallee() == f {
				return true
			}
			return false
		},
		edge: func(from, to *ssa.BasicBlock, label string, cond ssa.Value, onTrue bool, t *tracker) bool {
			return allowedSkip(from, to, cond, onTrue)
		}})
	if skipped {
		return "an iteration over " + mname + " can complete without the recursive call on a condition that is neither a missing counterpart, an incarnation mismatch nor the deleted marker: the child is silently left out of the result (downstream, an absent child means 'deleted')"
	}
	if !earlyExit {
		return "" // a discovered walker may be an existential query (first hit answers): only the skip is judged
	}
	// leaving the loop early (return / break inside the body) and then reporting success leaves the remaining children unvisited
	res := f.Signature.Results()
	hasErr := res.Len() > 0 && isErrorType(res.At(res.Len()-1).Type())
	errCells := map[ssa.Value]bool{}
	eachInstr(f, func(q ssa.Instruction) {
		if r, isR := q.(*ssa.Return); isR && hasErr && len(r.Results) > 0 {
			if ld, isLd := r.Results[len(r.Results)-1].(*ssa.UnOp); isLd && ld.Op == token.MUL {
				if a, isA := ld.X.(*ssa.Alloc); isA {
					errCells[a] = true
				}
			}
		}
	})
	early := ""
	for b := range scc {
		for si, sblk := range b.Succs {
			if scc[sblk] || early != "" {
				continue
			}
			// the range's own exhaustion test is the natural exit
			natural := false
			if iff, isIf := b.Instrs[len(b.Instrs)-1].(*ssa.If); isIf {
				if e, isE := iff.Cond.(*ssa.Extract); isE {
					if _, isNext := e.Tuple.(*ssa.Next); isNext {
						natural = true
					}
				}
				_ = si
			}
			if natural {
				continue
			}
			// from here: does a success return follow?
			success := ""
			walk(point{sblk, 0}, walkOpts{noInline: true, visit: func(i ssa.Instruction, t *tracker) bool {
				if success != "" {
					return true
				}
				if st, isSt := i.(*ssa.Store); isSt && errCells[st.Addr] {
					if isNilConst(st.Val) {
						success = c.instrPos(i)
					}
					return true
				}
				if r, isR := i.(*ssa.Return); isR {
					if !hasErr {
						success = c.instrPos(i)
					} else if last := r.Results[len(r.Results)-1]; isNilConst(last) {
						success = c.instrPos(i)
					}
					return true
				}
				return false
			}})
			if success != "" {
				early = "the loop over " + mname + " can be left from inside its body (a return / break at " + c.pos(b.Instrs[len(b.Instrs)-1].Pos()) +
					") and the function then reports success (" + success + "): the children not yet visited - map order is random - are left out (unsorted, unpersisted or dropped)"
			}
		}
	}
	return early
}

// subjectParams: indices of parameters p of f such that f ranges over p.<mapName>.
func subjectParams(f *ssa.Function, mapName string) []int {
	var out []int
	seen := map[int]bool{}
	eachInstr(f, func(i ssa.Instruction) {
		rg, ok := i.(*ssa.Range)
		if !ok {
			return
		}
		fv, base := loadedField(rg.X)
		if fv == nil || fv.Name() != mapName {
			return
		}
		for _, og := range origins(base) {
			if p, ok := og.(*ssa.Parameter); ok {
				for k, q := range f.Params {
					if q == p && !seen[k] {
						seen[k] = true
						out = append(out, k)
					}
				}
			}
		}
	})
	sort.Ints(out)
	return out
}

// ---------------------------------------------------------------- INC-4

func ruleInc4(c *Ctx) []*Ob {
	o := newObs(c, "INC-4")
	for _, wn := range []string{"(*segmentStack).merge", "(*Store).writeSegments"} {
		f := c.Fn(wn)
		var baseParam *ssa.Parameter
		baseIdx := -1
		for k, p := range f.Params {
			if p.Name() == "base" {
				baseParam, baseIdx = p, k
			}
		}
		if baseParam == nil {
			o.add(wn, "recursive call passes base", c.pos(f.Pos()), false, "anchor lost: parameter base")
			continue
		}
		n := 0
		eachInstr(f, func(i ssa.Instruction) {
			ci, ok := i.(ssa.CallInstruction)
			if !ok || ci.Common().StaticCallee() != f {
				return
			}
			n++
			arg := ci.Common().Args[baseIdx]
			fromBase := false
			var leafs []string
			for _, og := range originsDeepIn(c, arg, f) {
				if isNilConst(og) {
					leafs = append(leafs, "nil")
					continue
				}
				leafs = append(leafs, accessPath(og))
				m, _, ok := childKeyOf(og)
				if !ok || m.Name() != "childSegStacks" {
					continue
				}
				// the map must belong to the base parameter
				var lk ssa.Value
				switch x := og.(type) {
				case *ssa.Lookup:
					lk = x.X
				case *ssa.Extract:
					if l, ok := x.Tuple.(*ssa.Lookup); ok {
						lk = l.X
					}
				}
				if lk != nil {
					if _, b := loadedField(lk); b != nil {
						for _, bo := range originsDeepIn(c, b, f) {
							if bo == ssa.Value(baseParam) {
								fromBase = true
							}
						}
					}
				}
			}
			why := "the recursive call receives base.childSegStacks[name] (nil only where the incarnations differ)"
			if !fromBase {
				why = "the recursive call's base is " + strings.Join(leafs, " | ") + ": never the child's counterpart in base, so merge operands of child collections below the splice point are resolved against nothing (MB-29664)"
			}
			o.add(wn, "recursive call passes base", c.instrPos(i), fromBase, why)
		})
		if n == 0 {
			o.add(wn, "recursive call passes base", c.pos(f.Pos()), false, "the walker does not recurse")
		}
	}
	return o.list
}

// ---------------------------------------------------------------- INC-6

func init() {
	register(&Rule{
		ID: "INC-6",
		Doc: "Pairing by name needs the incarnation: a function that, for one child name, takes the child's counterpart from two different trees (a lookup in / range over childCollections, " +
			"childSegStacks or ChildFooters, or the result of ChildCollectionSnapshot(name)) compares the incarnation numbers of the two counterparts (directly or through a helper that reads " +
			"incarNum) somewhere in the function. The pairings are discovered from the code, not listed: the functions that do compare (appendChildStacks, merge, buildNewFooter, " +
			"mergeSegStacks, spliceFooter, buildStackDirtyTop) are the evidence that an unguarded one is deviant (a deleted and recreated child would be paired with its predecessor's data).",
		Props: []string{"C11", "C01", "C07"},
		Floor: 4,
		Run:   ruleInc6,
		Exceptions: []string{
			"(*Store).persistSegments: the footer handed in was built by buildNewFooter from the same stack in the same round (same incarnations by construction)",
			"(*collection).buildStackDirtyTop, loop over the batch's child batches: curStackTop is the collection's own stackDirtyTop built under the same lock as childCollections; a deleted child's stack was dropped from it by the deleting ExecuteBatch",
		},
	})
}

type childElem struct {
	v      ssa.Value
	key    ssa.Value
	source string // map field (or "ChildCollectionSnapshot") @ base
	instr  ssa.Instruction
}

func childElems(c *Ctx, f *ssa.Function) []childElem {
	var out []childElem
	eachInstr(f, func(i ssa.Instruction) {
		v, ok := i.(ssa.Value)
		if !ok {
			return
		}
		if mf, key, isEl := childKeyOf(v); isEl {
			base := ""
			fresh := false
			setBase := func(m ssa.Value) {
				_, b := loadedField(m)
				if b != nil {
					base = canonKey(b)
					for _, og := range origins(b) {
						if isFreshAlloc(og) {
							fresh = true
						}
					}
				}
			}
			switch x := v.(type) {
			case *ssa.Lookup:
				setBase(x.X)
			case *ssa.Extract:
				switch t := x.Tuple.(type) {
				case *ssa.Lookup:
					setBase(t.X)
				case *ssa.Next:
					if rg, isR := t.Iter.(*ssa.Range); isR {
						setBase(rg.X)
					}
				}
			}
			if mf.Name() == "childBatches" {
				return // batches carry no incarnation
			}
			if fresh {
				return // the stack / footer under construction in this very function
			}
			out = append(out, childElem{v, key, mf.Name() + "@" + base, i})
			return
		}
		// x, _ := s.ChildCollectionSnapshot(name)
		if e, isE := v.(*ssa.Extract); isE && e.Index == 0 {
			if call, isC := e.Tuple.(*ssa.Call); isC {
				cc := call.Common()
				name := ""
				var key ssa.Value
				var recv ssa.Value
				if cc.IsInvoke() {
					name = cc.Method.Name()
					if len(cc.Args) > 0 {
						key, recv = cc.Args[0], cc.Value
					}
				} else if sf := cc.StaticCallee(); sf != nil && sf.Signature.Recv() != nil && len(cc.Args) > 1 {
					name, recv, key = sf.Name(), cc.Args[0], cc.Args[1]
				}
				if name == "ChildCollectionSnapshot" && key != nil {
					out = append(out, childElem{v, key, "ChildCollectionSnapshot@" + canonKey(recv), i})
				}
			}
		}
	})
	return out
}

// reachesElem: v is computed from element e (through loads, field addresses, conversions, phis and calls that take it).
func reachesElem(v ssa.Value, e ssa.Value) bool {
	seen := map[ssa.Value]bool{}
	var rec func(v ssa.Value, d int) bool
	rec = func(v ssa.Value, d int) bool {
		if v == nil || seen[v] || d > 12 {
			return false
		}
		seen[v] = true
		if v == e {
			return true
		}
		switch x := v.(type) {
		case *ssa.UnOp:
			return rec(x.X, d+1)
		case *ssa.FieldAddr:
			return rec(x.X, d+1)
		case *ssa.Field:
			return rec(x.X, d+1)
		case *ssa.Extract:
			return rec(x.Tuple, d+1)
		case *ssa.Phi:
			for _, ed := range x.Edges {
				if rec(ed, d+1) {
					return true
				}
			}
		case *ssa.MakeInterface:
			return rec(x.X, d+1)
		case *ssa.ChangeInterface:
			return rec(x.X, d+1)
		case *ssa.TypeAssert:
			return rec(x.X, d+1)
		case *ssa.ChangeType:
			return rec(x.X, d+1)
		case *ssa.Call:
			for _, a := range x.Call.Args {
				if rec(a, d+1) {
					return true
				}
			}
			if x.Call.IsInvoke() {
				return rec(x.Call.Value, d+1)
			}
		case *ssa.Alloc:
			// a local cell: what was stored into it
			if refs := x.Referrers(); refs != nil {
				for _, r := range *refs {
					if st, ok := r.(*ssa.Store); ok && st.Addr == x && rec(st.Val, d+1) {
						return true
					}
				}
			}
		}
		return false
	}
	return rec(v, 0)
}

func ruleInc6(c *Ctx) []*Ob {
	o := newObs(c, "INC-6")
	except := map[string]string{
		"(*Store).persistSegments|*": "the footer handed in was built by buildNewFooter from the same stack in the same round",
		"(*collection).buildStackDirtyTop|childBatches": "curStackTop is the collection's own stackDirtyTop, built under the same lock as childCollections: the ExecuteBatch that deleted a child also dropped " +
			"the child's stack from the new top (second loop, `!exists`), so a name found in both belongs to the same incarnation",
	}
	keyDesc := func(k ssa.Value) string {
		if e, ok := k.(*ssa.Extract); ok {
			if n, isN := e.Tuple.(*ssa.Next); isN {
				if rg, isR := n.Iter.(*ssa.Range); isR {
					if fv, _ := loadedField(rg.X); fv != nil {
						return fv.Name()
					}
				}
			}
		}
		if p, ok := k.(*ssa.Parameter); ok {
			return "parameter " + p.Name()
		}
		return "name"
	}
	for _, f := range c.Funcs {
		if c.isHarness(f) {
			continue
		}
		fn := c.fname(f)
		els := childElems(c, f)
		if len(els) < 2 {
			continue
		}
		done := map[string]bool{}
		for a := 0; a < len(els); a++ {
			for b := a + 1; b < len(els); b++ {
				ea, eb := els[a], els[b]
				if ea.source == eb.source || !sameKey(ea.key, eb.key) {
					continue
				}
				sa, sb := ea.source, eb.source
				if sb < sa {
					sa, sb = sb, sa
				}
				kd := keyDesc(ea.key)
				construct := "pairing " + strings.Split(sa, "@")[0] + " x " + strings.Split(sb, "@")[0] + " by key of " + kd
				if done[sa+"|"+sb+"|"+kd] {
					continue
				}
				done[sa+"|"+sb+"|"+kd] = true
				why, isEx := except[fn+"|"+kd]
				if !isEx {
					why, isEx = except[fn+"|*"]
				}
				if isEx {
					o.trivial(fn, construct, c.instrPos(ea.instr), "table exception: "+why)
					continue
				}
				comparedPair := func(ea, eb childElem) string {
					compared := ""
					eachInstr(f, func(i ssa.Instruction) {
						bo, ok := i.(*ssa.BinOp)
						if !ok || (bo.Op != token.EQL && bo.Op != token.NEQ) || compared != "" {
							return
						}
						// the comparison is about incarnations: an operand loads incarNum, or comes from a helper that does
						if !mentionsIncarNum(c, bo.X) && !mentionsIncarNum(c, bo.Y) {
							return
						}
						for _, x := range els {
							if x.source != ea.source || !sameKey(x.key, ea.key) {
								continue
							}
							for _, y := range els {
								if y.source != eb.source || !sameKey(y.key, eb.key) {
									continue
								}
								if (reachesElem(bo.X, x.v) && reachesElem(bo.Y, y.v)) || (reachesElem(bo.X, y.v) && reachesElem(bo.Y, x.v)) {
									compared = c.instrPos(i)
								}
							}
						}
					})
					return compared
				}
				compared := comparedPair(ea, eb)
				if compared == "" {
					// both compared with a third counterpart of the same name (A == C and C == B)
					for _, ec := range els {
						if ec.source == ea.source || ec.source == eb.source || !sameKey(ec.key, ea.key) {
							continue
						}
						if p1, p2 := comparedPair(ea, ec), comparedPair(ec, eb); p1 != "" && p2 != "" {
							compared = p1 + " and " + p2 + " (through " + strings.Split(ec.source, "@")[0] + ")"
							break
						}
					}
				}
				why = "the two counterparts' incarnation numbers are compared at " + compared
				if compared == "" {
					why = "the child's counterparts from two trees are paired by name alone: after the child was deleted and recreated, the new child is combined with its predecessor's data (deleted keys resurface, merges resolve against old values)"
				}
				o.add(fn, construct, c.instrPos(ea.instr), compared != "", why)
			}
		}
	}
	return o.list
}

// mentionsIncarNum: v is a load of an incarNum field, or the result of a moss helper that loads one.
func mentionsIncarNum(c *Ctx, v ssa.Value) bool {
	if fv, _ := loadedField(v); isIncarNum(fv) {
		return true
	}
	var call *ssa.Call
	switch x := v.(type) {
	case *ssa.Call:
		call = x
	case *ssa.Extract:
		call, _ = x.Tuple.(*ssa.Call)
	}
	if call == nil {
		return false
	}
	sf := call.Call.StaticCallee()
	if sf == nil || sf.Pkg != c.Moss {
		return false
	}
	found := false
	eachInstr(sf, func(i ssa.Instruction) {
		if val, ok := i.(ssa.Value); ok {
			if fv, _ := loadedField(val); isIncarNum(fv) {
				found = true
			}
		}
	})
	return found
}

// ---------------------------------------------------------------- INC-7

func init() {
	register(&Rule{
		ID: "INC-7",
		Doc: "A walk over the children goes all the way down: inside a loop over a child map (childSegStacks, ChildFooters, childCollections, childBatches) a call of a moss method on the child " +
			"element whose receiver type is the type of the enclosing function's own subject calls a function that itself walks that child map (the function itself, or a sibling walker) - " +
			"unless the callee is in the table of deliberately shallow operations (reference counting, Close, lookups by name). The walkers are discovered, not listed: statsDeep, height, " +
			"isEmpty, ensureFullySorted, merge, … A walker that calls the shallow sibling (statsDeep calling Stats) covers children but not grandchildren.",
		Props: []string{"C20", "C11", "C16"},
		Floor: 5,
		Run:   ruleInc7,
	})
}

func ruleInc7(c *Ctx) []*Ob {
	o := newObs(c, "INC-7")
	// walkers: functions that range over a child map and call themselves inside that loop
	rangesChild := func(g *ssa.Function) bool {
		for m := range childMapNames {
			if len(rangeLoopsOver(g, m)) > 0 {
				return true
			}
		}
		return false
	}
	shallowOK := map[string]string{
		"addRef": "reference counting is per object", "AddRef": "reference counting is per object", "decRef": "releases recursively by itself", "DecRef": "releases recursively by itself",
		"Close": "releases recursively by itself", "getOrInitChildStack": "creates the child's stack", "Len": "a batch's own length", "isEmpty": "",
	}
	for _, f := range c.Funcs {
		if c.isHarness(f) || f.Parent() != nil || f.Signature.Recv() == nil {
			continue
		}
		fn := c.fname(f)
		recvT := typeName(f.Signature.Recv().Type())
		for m := range childMapNames {
			for _, scc := range rangeLoopsOver(f, m) {
				eachInstr(f, func(i ssa.Instruction) {
					call, ok := i.(*ssa.Call)
					if !ok || !scc[i.Block()] {
						return
					}
					g := call.Call.StaticCallee()
					if g == nil || g.Pkg != c.Moss || g.Signature.Recv() == nil || len(call.Call.Args) == 0 {
						return
					}
					if typeName(g.Signature.Recv().Type()) != recvT {
						return
					}
					// the receiver is the child element of this loop
					isChild := false
					for _, og := range origins(call.Call.Args[0]) {
						if _, _, isEl := childKeyOf(og); isEl {
							isChild = true
						}
					}
					if !isChild {
						return
					}
					construct := "child call " + g.Name() + " in the loop over " + m
					if g == f || rangesChild(g) {
						o.add(fn, construct, c.instrPos(i), true, "the callee walks the children itself")
						return
					}
					// the same loop also hands the child to a walker: the grandchildren are covered by that call, this
					// one is a per-child helper (loop body parts extracted into methods of the child)
					recursesToo := false
					eachInstr(f, func(j ssa.Instruction) {
						k2, isC := j.(*ssa.Call)
						if !isC || !scc[j.Block()] || recursesToo {
							return
						}
						h := k2.Call.StaticCallee()
						if h == nil || (h != f && !rangesChild(h)) || len(k2.Call.Args) == 0 {
							return
						}
						for _, a := range k2.Call.Args {
							for _, og := range origins(a) {
								if _, _, isEl := childKeyOf(og); isEl {
									recursesToo = true
								}
							}
						}
					})
					if recursesToo {
						o.trivial(fn, construct, c.instrPos(i), "a per-child helper: the same iteration also hands the child to a walker, which covers the grandchildren")
						return
					}
					if why, isOK := shallowOK[g.Name()]; isOK && g.Name() != "isEmpty" {
						o.trivial(fn, construct, c.instrPos(i), "table: deliberately shallow ("+why+")")
						return
					}
					o.add(fn, construct, c.instrPos(i), false,
						"inside its loop over "+m+" the function calls "+g.Name()+" on the child, which does not look at the child's own children: grandchildren are not covered (dirty work of a nested child collection is invisible to the gauges / unsorted / unpersisted)")
				})
			}
		}
	}
	return o.list
}
