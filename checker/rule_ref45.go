package main

// REF-4 (single owner after a transfer), REF-5 (born owned), R-HIST (history links).

import (
	"fmt"
	"go/constant"
	"go/token"
	"go/types"
	"sort"
	"strings"

	"golang.org/x/tools/go/ssa"
)

func init() {
	register(&Rule{
		ID: "REF-4",
		Doc: "Single owner after a transfer: a token stored into the owning sink CollectionOptions.LowerLevelInit (consumed by NewCollection, which wraps it in an owning SnapshotWrapper " +
			"that closes it when replaced or on Close) must not be released again by a closure that the same function installs into the same options struct (e.g. the LowerLevelUpdate callback): " +
			"the second release empties the lower level under live readers.",
		Props: []string{"C01", "C02", "C03", "C15"},
		Floor: 1,
		Run:   ruleRef4,
	})
	register(&Rule{
		ID: "REF-5",
		Doc: "Born owned: every Footer literal stores refs with a positive constant; Footers created by deserialisation (json.Unmarshal into a *Footer, whose ChildFooters map yields " +
			"child Footers with refs == 0) must get their refs stored by the loader that walks them (doLoadSegments / ScanFooter) before the parent is returned; otherwise the first " +
			"AddRef/DecRef pair of any reader takes the child to zero and releases it under its parent.",
		Props: []string{"C15", "C02", "C11"},
		Floor: 3,
		Run:   ruleRef5,
	})
	register(&Rule{
		ID: "R-HIST",
		Doc: "History links: every store to Footer.PrevFooterOffset takes its value from the filePos of a Footer (the footer current when the new one is built); Footer.filePos is written only by " +
			"persistFooterUnsynced (the position just written) and by footer literals of ScanFooter (the position just verified); every function that publishes a footer appended to the file of the " +
			"footer it replaces without compacting (persist via buildNewFooter, snapshotRevert) stores PrevFooterOffset of the published footer before persisting it.",
		Props: []string{"C12", "C04"},
		Floor: 3,
		Run:   ruleHist,
	})
}

func init() {
	register(&Rule{
		ID: "REF-6",
		Doc: "Copied owner: when a struct that owns a release handle (iterator.closer, iterator.lowerLevelIter) is copied by value (`old := *iter`) and Close is called on the copy, every owning " +
			"field that the original keeps must be cleared in the copy first – otherwise the same reference is released twice (once through the copy, once through the original).",
		Props: []string{"C15", "C02"},
		Floor: 1,
		Run:   ruleRef6,
	})
}

func ruleRef6(c *Ctx) []*Ob {
	o := newObs(c, "REF-6")
	iterClose := c.Fn("(*iterator).Close")
	fCloser := c.Field("iterator", "closer")
	fLL := c.Field("iterator", "lowerLevelIter")
	for _, f := range c.Funcs {
		fn := c.fname(f)
		for _, k := range callsToFn(f, iterClose) {
			a, ok := k.Call.Args[0].(*ssa.Alloc)
			if !ok {
				continue
			}
			// the alloc is a by-value copy of another iterator
			var src ssa.Value
			if refs := a.Referrers(); refs != nil {
				for _, r := range *refs {
					if st, ok := r.(*ssa.Store); ok && st.Addr == ssa.Value(a) {
						if ld, ok := st.Val.(*ssa.UnOp); ok && ld.Op == token.MUL {
							src = ld.X
						}
					}
				}
			}
			if src == nil {
				continue
			}
			for _, fld := range []*types.Var{fCloser, fLL} {
				// does the original keep this field? (a store to src.fld after the copy means it was replaced)
				replaced := false
				cleared := false
				eachInstr(f, func(i ssa.Instruction) {
					st, ok := i.(*ssa.Store)
					if !ok {
						return
					}
					fv, base := asFieldAddr(st.Addr)
					if fv != fld {
						return
					}
					if base == ssa.Value(a) && isNilConst(st.Val) {
						if mustPrecede(f, k, func(j ssa.Instruction) bool { return j == ssa.Instruction(st) }, nil) {
							cleared = true
						}
					}
					if base == src || sameValue(base, src) {
						if mustPrecede(f, k, func(j ssa.Instruction) bool { return j == ssa.Instruction(st) }, nil) {
							replaced = true
						}
					}
				})
				construct := "Close of a by-value copy: " + fld.Name()
				switch {
				case cleared:
					o.add(fn, construct, c.instrPos(k), true, "the copy's "+fld.Name()+" is cleared before Close: only the original releases it")
				case replaced:
					o.add(fn, construct, c.instrPos(k), true, "the original's "+fld.Name()+" was replaced before the copy is closed: the copy releases the old one")
				default:
					o.add(fn, construct, c.instrPos(k), false,
						"the copy still holds the original's "+fld.Name()+": Close on the copy releases it and Close on the original releases it again - a reference another handle depends on is taken away (premature unmap / file removal)")
				}
			}
		}
	}
	return o.list
}

func init() {
	register(&Rule{
		ID: "REF-7",
		Doc: "Release only what was acquired: a footer built by buildNewFooter / writeSegments carries copies of SegmentLocs whose mmap references are only taken by loadSegments; " +
			"so in persist and compact a DecRef/Close of that footer must be preceded by, and lie behind the nil-error edge of, loadSegments on the same footer " +
			"(releasing it earlier unmaps segments of the footer that is still published).",
		Props: []string{"C06", "C15", "C02"},
		Floor: 1,
		Run:   ruleRef7,
	})
	register(&Rule{
		ID: "REF-8",
		Doc: "Handles are acquired before they are handed out: a function that returns, as a Snapshot or *Footer, a reference-counted object it found in a field or a child map (a shared object, " +
			"not one it just created) calls addRef/AddRef on it on every path to that return – the caller will Close it.",
		Props: []string{"C02", "C15"},
		Floor: 3,
		Run:   ruleRef8,
	})
}

func ruleRef7(c *Ctx) []*Ob {
	o := newObs(c, "REF-7")
	load := c.Fn("(*Footer).loadSegments")
	builders := map[*ssa.Function]bool{c.Fn("(*Store).buildNewFooter"): true, c.Fn("(*Store).writeSegments"): true}
	for _, fnn := range []string{"(*Store).persist", "(*Store).compact"} {
		f := c.Fn(fnn)
		// the footer token: result of a builder call
		var tok ssa.Value
		eachInstr(f, func(i ssa.Instruction) {
			if call, ok := i.(*ssa.Call); ok && builders[call.Call.StaticCallee()] {
				tok = firstResult(call)
			}
		})
		if tok == nil {
			o.add(fnn, "footer under construction", c.pos(f.Pos()), false, "anchor lost: no buildNewFooter / writeSegments call")
			continue
		}
		var loads []*ssa.Call
		for _, k := range callsToFn(f, load) {
			if sameValue(k.Call.Args[0], tok) {
				loads = append(loads, k)
			}
		}
		n := 0
		eachInstr(f, func(i ssa.Instruction) {
			ci, ok := i.(ssa.CallInstruction)
			if !ok {
				return
			}
			recv, isRel := isReleaseCall(ci)
			if !isRel || !sameValue(recv, tok) {
				return
			}
			n++
			ok2 := false
			for _, k := range loads {
				if g, _ := precededAndGuardedBy(f, k, i); g {
					ok2 = true
				}
			}
			why := "the footer is released only after loadSegments took the mmap references it releases"
			if !ok2 {
				why = "the footer under construction is released on a path where loadSegments has not (successfully) run: its SegmentLocs are copies of the published footer's, so the release unmaps segments that are still in use"
			}
			o.add(fnn, "release of the new footer after loadSegments", c.instrPos(i), ok2, why)
		})
		if n == 0 {
			o.trivial(fnn, "release of the new footer after loadSegments", c.pos(f.Pos()), "the function never releases the footer it builds")
		}
	}
	return o.list
}

func init() {
	register(&Rule{
		ID: "REF-9",
		Doc: "Copied segment locations are pinned: a Footer literal whose SegmentLocs are copied from another footer's SegmentLocs shares that footer's mmap references; the function must take its own " +
			"references with SegmentLocs.AddRef() on the copy, or (buildNewFooter) its result must be handed to loadSegments by the publisher, which takes them. Otherwise closing the other footer " +
			"unmaps the data under the new one.",
		Props: []string{"C12", "C15", "C02"},
		Floor: 1,
		Run:   ruleRef9,
	})
}

func ruleRef9(c *Ctx) []*Ob {
	o := newObs(c, "REF-9")
	fSL := c.Field("Footer", "SegmentLocs")
	load := c.Fn("(*Footer).loadSegments")
	for _, f := range c.Funcs {
		fn := c.fname(f)
		eachInstr(f, func(i ssa.Instruction) {
			a, ok := i.(*ssa.Alloc)
			if !ok || typeName(a.Type()) != "Footer" {
				return
			}
			if _, isStruct := a.Type().Underlying().(*types.Pointer).Elem().Underlying().(*types.Struct); !isStruct {
				return
			}
			// the SegmentLocs stored into the literal (also later stores to the same object)
			var stored []*ssa.Store
			if refs := a.Referrers(); refs != nil {
				for _, r := range *refs {
					if fa, ok := r.(*ssa.FieldAddr); ok && fieldAddrVar(fa) == fSL {
						if rr := fa.Referrers(); rr != nil {
							for _, u := range *rr {
								if st, ok := u.(*ssa.Store); ok && st.Addr == ssa.Value(fa) {
									stored = append(stored, st)
								}
							}
						}
					}
				}
			}
			for _, st := range stored {
				// copied from another footer's SegmentLocs?
				copied := backSlice(st.Val, func(v ssa.Value) bool {
					if call, ok := v.(*ssa.Call); ok {
						if b, isB := call.Call.Value.(*ssa.Builtin); isB && b.Name() == "append" {
							for _, arg := range call.Call.Args {
								for n := 0; n < 4; n++ {
									switch x := arg.(type) {
									case *ssa.ChangeType:
										arg = x.X
									case *ssa.Convert:
										arg = x.X
									case *ssa.Slice:
										arg = x.X
									}
								}
								if fv, base := loadedField(arg); fv == fSL && base != ssa.Value(a) {
									return true
								}
							}
						}
					}
					fv, base := loadedField(v)
					return fv == fSL && base != ssa.Value(a)
				})
				if !copied {
					continue
				}
				// pinned in place?
				pinned := false
				eachInstr(f, func(j ssa.Instruction) {
					call, ok := j.(*ssa.Call)
					if !ok {
						return
					}
					sf := call.Call.StaticCallee()
					if sf == nil || sf.Name() != "AddRef" || sf.Signature.Recv() == nil || typeName(sf.Signature.Recv().Type()) != "SegmentLocs" {
						return
					}
					if sameValue(call.Call.Args[0], st.Val) || backSlice(st.Val, func(v ssa.Value) bool { return v == call.Call.Args[0] }) {
						pinned = true
					}
				})
				why := "the copy takes its own mmap references (SegmentLocs.AddRef)"
				if !pinned {
					// or every caller hands the result to loadSegments
					viaLoad := false
					sites := c.Callers(f)
					nOK := 0
					for _, s := range sites {
						if s.Caller == f {
							nOK++
							continue
						}
						call, isCall := s.Instr.(*ssa.Call)
						if !isCall {
							continue
						}
						res := firstResult(call)
						for _, k := range callsToFn(s.Caller, load) {
							if res != nil && sameValue(k.Call.Args[0], res) {
								nOK++
							}
						}
					}
					if len(sites) > 0 && nOK == len(sites) {
						viaLoad = true
						why = "every caller passes the new footer to loadSegments, which takes the mmap references"
					}
					pinned = viaLoad
				}
				if !pinned {
					why = "the new footer copies the SegmentLocs of another footer without taking references on their mappings: when that footer (e.g. a history snapshot) is closed the data is unmapped under the new one"
				}
				o.add(fn, "Footer literal: copied SegmentLocs are pinned", c.instrPos(st), pinned, why)
			}
		})
	}
	return o.list
}

func ruleRef8(c *Ctx) []*Ob {
	o := newObs(c, "REF-8")
	for _, f := range c.Funcs {
		res := f.Signature.Results()
		if res.Len() == 0 {
			continue
		}
		rt := res.At(0).Type()
		tn := typeName(rt)
		if !(tn == "Snapshot" || tn == "Footer") || typePkgPath(rt) != mossPath {
			continue
		}
		fn := c.fname(f)
		// a hand-out: an exported function / method, or a helper whose result some caller returns in turn; an
		// unexported helper whose result its callers only use (a lookup extracted from a loop body) lends, it
		// does not hand out
		if !isExportedRoot(f) && f.Parent() == nil {
			handedOn := false
			for _, cs := range c.Callers(f) {
				v, isV := cs.Instr.(ssa.Value)
				if !isV {
					continue
				}
				eachInstr(cs.Instr.Parent(), func(j ssa.Instruction) {
					if r, isR := j.(*ssa.Return); isR {
						for _, res := range r.Results {
							backSlice(res, func(w ssa.Value) bool {
								if w == v {
									handedOn = true
								}
								return false
							})
						}
					}
				})
			}
			if !handedOn {
				continue
			}
		}
		eachInstr(f, func(i ssa.Instruction) {
			r, ok := i.(*ssa.Return)
			if !ok {
				return
			}
			for _, og := range origins(r.Results[0]) {
				if isNilConst(og) {
					continue
				}
				// shared: loaded from a field, or an element of a child map
				shared := false
				if fv, _ := loadedField(og); fv != nil && refCountedType(og.Type()) {
					shared = true
				}
				if m, _, isChild := childKeyOf(og); isChild && m != nil && refCountedType(og.Type()) {
					shared = true
				}
				if !shared {
					continue
				}
				// swap-out: the function overwrites the very field it took the object from, so the field's own
				// reference travels with the returned value (REF-2's "returned to the caller")
				swapped := false
				if fv, base := loadedField(og); fv != nil {
					for _, a := range fieldAccesses(f, func(v *types.Var) bool { return v == fv }) {
						if a.Kind == "store" && canonKey(a.Base) == canonKey(base) {
							swapped = true
						}
					}
				}
				if swapped {
					o.trivial(fn, "returned handle "+accessPath(og)+" is acquired", c.instrPos(r), "swap-out: the field is overwritten in the same function, its reference moves to the caller")
					continue
				}
				acquired := mustPrecede(f, r, func(j ssa.Instruction) bool {
					call, isCall := j.(*ssa.Call)
					if !isCall {
						return false
					}
					sf := call.Call.StaticCallee()
					if sf == nil || !acquireMethods[sf.Name()] || len(call.Call.Args) == 0 {
						return false
					}
					return sameValue(call.Call.Args[0], og)
				}, func(from, to *ssa.BasicBlock, cond ssa.Value, onTrue bool) bool {
					// the `x == nil` / `!exists` edges: nothing is handed out
					if b, isB := cond.(*ssa.BinOp); isB && (b.Op == token.EQL || b.Op == token.NEQ) && isNilConst(b.Y) && sameValue(b.X, og) {
						return (b.Op == token.EQL) == onTrue
					}
					return false
				})
				why := "the shared object is addRef'ed before it is returned"
				if !acquired {
					why = "a shared reference-counted object (" + accessPath(og) + ") is handed out without taking a reference: the caller's Close() releases a reference that belongs to the container, and later readers find the object torn down"
				}
				o.add(fn, "returned handle "+accessPath(og)+" is acquired", c.instrPos(r), acquired, why)
			}
		})
	}
	return o.list
}

func isReleaseCall(ci ssa.CallInstruction) (ssa.Value, bool) {
	cc := ci.Common()
	name := ""
	var recv ssa.Value
	if cc.IsInvoke() {
		name, recv = cc.Method.Name(), cc.Value
	} else if sf := cc.StaticCallee(); sf != nil && sf.Signature.Recv() != nil && len(cc.Args) > 0 {
		name, recv = sf.Name(), cc.Args[0]
	}
	switch name {
	case "Close", "DecRef", "decRef":
		return recv, true
	}
	return nil, false
}

func ruleRef4(c *Ctx) []*Ob {
	o := newObs(c, "REF-4")
	fInit := c.Field("CollectionOptions", "LowerLevelInit")
	n := 0
	for _, f := range c.Funcs {
		fn := c.fname(f)
		for _, a := range fieldAccesses(f, func(v *types.Var) bool { return v == fInit }) {
			if a.Kind != "store" {
				continue
			}
			st := a.Instr.(*ssa.Store)
			if isNilConst(st.Val) {
				continue
			}
			n++
			// the cells (captured variables) that hold the token
			cells := map[ssa.Value]bool{}
			backSlice(st.Val, func(v ssa.Value) bool {
				if ld, ok := v.(*ssa.UnOp); ok && ld.Op == token.MUL {
					if al, ok := ld.X.(*ssa.Alloc); ok {
						cells[al] = true
					}
				}
				return false
			})
			optsBase := a.Base
			// closures installed into the same struct
			bad := ""
			var badPos ssa.Instruction
			nclos := 0
			eachInstr(f, func(i ssa.Instruction) {
				st2, ok := i.(*ssa.Store)
				if !ok {
					return
				}
				fv2, base2 := asFieldAddr(st2.Addr)
				if fv2 == nil || base2 != optsBase {
					return
				}
				val2 := st2.Val
				for {
					if ct, isCT := val2.(*ssa.ChangeType); isCT {
						val2 = ct.X
						continue
					}
					if mi, isMI := val2.(*ssa.MakeInterface); isMI {
						val2 = mi.X
						continue
					}
					break
				}
				mc, ok := val2.(*ssa.MakeClosure)
				if !ok {
					return
				}
				nclos++
				cf := mc.Fn.(*ssa.Function)
				for k, b := range mc.Bindings {
					if !cells[b] || k >= len(cf.FreeVars) {
						continue
					}
					fvv := cf.FreeVars[k]
					eachInstr(cf, func(j ssa.Instruction) {
						ci, ok := j.(ssa.CallInstruction)
						if !ok {
							return
						}
						recv, isRel := isReleaseCall(ci)
						if !isRel {
							return
						}
						if backSlice(recv, func(v ssa.Value) bool {
							ld, ok := v.(*ssa.UnOp)
							return ok && ld.Op == token.MUL && ld.X == ssa.Value(fvv)
						}) {
							bad = fmt.Sprintf("the closure installed as %s releases %s", fv2.Name(), fvv.Name())
							badPos = j
						}
					})
				}
			})
			construct := "token -> CollectionOptions.LowerLevelInit, closures installed alongside"
			if bad != "" {
				o.add(fn, construct, c.instrPos(badPos), false,
					bad+" although it was handed to the collection as LowerLevelInit (whose wrapper closes it when the lower level is replaced): it is released twice, and between the two releases readers see a lower level with zero references and no segments")
			} else {
				o.add(fn, construct, c.instrPos(st), true, fmt.Sprintf("none of the %d closure(s) installed into the same options releases the transferred token", nclos))
			}
		}
	}
	if n == 0 {
		o.add("(*Store).openCollection", "token -> CollectionOptions.LowerLevelInit", "?", false, "anchor lost: no function hands a snapshot to LowerLevelInit")
	}
	return o.list
}

func ruleRef5(c *Ctx) []*Ob {
	o := newObs(c, "REF-5")
	fRefs := c.Field("Footer", "refs")
	// (1) literals
	for _, f := range c.Funcs {
		fn := c.fname(f)
		eachInstr(f, func(i ssa.Instruction) {
			a, ok := i.(*ssa.Alloc)
			if !ok || typeName(a.Type()) != "Footer" {
				return
			}
			if _, isStruct := a.Type().Underlying().(*types.Pointer).Elem().Underlying().(*types.Struct); !isStruct {
				return
			}
			pos := false
			if refs := a.Referrers(); refs != nil {
				for _, r := range *refs {
					if fa, ok := r.(*ssa.FieldAddr); ok && fieldAddrVar(fa) == fRefs {
						if rr := fa.Referrers(); rr != nil {
							for _, u := range *rr {
								if st, ok := u.(*ssa.Store); ok && st.Addr == fa {
									if n, isInt := constInt(st.Val); isInt && n >= 1 {
										pos = true
									}
								}
							}
						}
					}
				}
			}
			why := "the literal is created with refs >= 1 (its creator's reference)"
			if !pos {
				why = "the Footer is created with refs == 0: the first AddRef/DecRef pair of a reader releases its segments while it is still reachable"
			}
			o.add(fn, "Footer literal: refs", c.instrPos(a), pos, why)
		})
	}
	// (2) deserialised children
	scan := c.Fn("ScanFooter")
	unm := false
	eachInstr(scan, func(i ssa.Instruction) {
		if ci, ok := i.(ssa.CallInstruction); ok && isStaticCall(ci, "encoding/json", "Unmarshal") {
			for _, arg := range ci.Common().Args {
				if mi, ok := arg.(*ssa.MakeInterface); ok && typeName(mi.X.Type()) == "Footer" {
					unm = true
				}
			}
		}
	})
	if unm {
		set := false
		for _, ln := range []string{"(*Footer).doLoadSegments", "(*Footer).loadSegments", "ScanFooter"} {
			lf := c.Fn(ln)
			for _, a := range fieldAccesses(lf, func(v *types.Var) bool { return v == fRefs }) {
				if a.Kind != "store" {
					continue
				}
				// on a child: base derives from a ChildFooters element, or from the receiver of the recursive loader
				if backSlice(a.Base, func(v ssa.Value) bool {
					if m, _, ok := childKeyOf(v); ok && m.Name() == "ChildFooters" {
						return true
					}
					if p, ok := v.(*ssa.Parameter); ok && lf.Signature.Recv() != nil && p == lf.Params[0] && ln == "(*Footer).doLoadSegments" {
						return true
					}
					return false
				}) {
					set = true
				}
			}
		}
		why := "the loader stores refs on the child Footers it walks"
		if !set {
			why = "json.Unmarshal creates the child Footers of ChildFooters with refs == 0 and no loader sets them: ChildCollectionSnapshot(name) followed by Close takes the child 0 -> 1 -> 0 and releases its segments under its parent"
		}
		o.add("ScanFooter", "json.Unmarshal creates child Footers: refs", c.pos(scan.Pos()), set, why)
	}
	return o.list
}

func ruleHist(c *Ctx) []*Ob {
	o := newObs(c, "R-HIST")
	fPrev := c.Field("Footer", "PrevFooterOffset")
	fPos := c.Field("Footer", "filePos")
	fFooter := c.Field("Store", "footer")
	pf := c.Fn("(*Store).persistFooter")
	// (1) provenance of every PrevFooterOffset store
	type prevStore struct {
		f  *ssa.Function
		st *ssa.Store
	}
	var prevStores []prevStore
	for _, f := range c.Funcs {
		fn := c.fname(f)
		for _, a := range fieldAccesses(f, func(v *types.Var) bool { return v == fPrev }) {
			if a.Kind != "store" {
				continue
			}
			st := a.Instr.(*ssa.Store)
			prevStores = append(prevStores, prevStore{f, st})
			ok := false
			for _, og := range origins(st.Val) {
				if fv, _ := loadedField(og); fv == fPos {
					ok = true
				}
			}
			why := "the link is the filePos of the footer being superseded"
			if !ok {
				why = "PrevFooterOffset is set from " + accessPath(st.Val) + ", not from the superseded footer's filePos: SnapshotPrevious scans from the wrong place"
			}
			o.add(fn, "store PrevFooterOffset", c.instrPos(st), ok, why)
		}
		// (2) who writes filePos
		for _, a := range fieldAccesses(f, func(v *types.Var) bool { return v == fPos }) {
			if a.Kind != "store" {
				continue
			}
			okw := fn == "(*Store).persistFooterUnsynced" || (fn == "ScanFooter" && isFreshAlloc(a.Base))
			why := "written where the footer's position is established"
			if !okw {
				why = "filePos is written outside persistFooterUnsynced / ScanFooter's literal: history links derived from it no longer point at a footer"
			}
			o.add(fn, "store filePos", c.instrPos(a.Instr), okw, why)
		}
	}
	// (2b) a footer loaded from disk knows its own position (it becomes the store's footer after open,
	// and the next round's back-link is taken from its filePos)
	scan := c.Fn("ScanFooter")
	nlit := 0
	eachInstr(scan, func(i ssa.Instruction) {
		a, ok := i.(*ssa.Alloc)
		if !ok || typeName(a.Type()) != "Footer" {
			return
		}
		if _, isStruct := a.Type().Underlying().(*types.Pointer).Elem().Underlying().(*types.Struct); !isStruct {
			return
		}
		nlit++
		set := allocFieldStored(a, fPos)
		why := "the footer read from disk records the position it was found at"
		if !set {
			why = "the footer read from disk does not record its position: after a reopen the first new round (or a revert) writes PrevFooterOffset 0 and every earlier round becomes unreachable through SnapshotPrevious"
		}
		o.add("ScanFooter", "Footer literal: filePos", c.instrPos(a), set, why)
	})
	if nlit == 0 {
		o.add("ScanFooter", "Footer literal: filePos", c.pos(scan.Pos()), false, "anchor lost: ScanFooter builds no Footer")
	}
	// (3) publishers that append to the current file must link
	for _, pn := range []string{"(*Store).persist", "(*Store).snapshotRevert"} {
		f := c.Fn(pn)
		for _, a := range fieldAccesses(f, func(v *types.Var) bool { return v == fFooter }) {
			if a.Kind != "store" || isNilConst(a.Val) || isFreshAlloc(a.Base) {
				continue
			}
			V := a.Val
			linked := false
			where := ""
			// a store in this function on V, before persistFooter(V)
			for _, ps := range prevStores {
				if ps.f != f {
					continue
				}
				_, base := asFieldAddr(ps.st.Addr)
				if base != nil && sameValue(base, V) {
					for _, k := range callsToFn(f, pf) {
						if _, reach := reachableFrom(ps.st, func(j ssa.Instruction) bool { return j == ssa.Instruction(k) }, nil, nil); reach {
							linked = true
							where = c.instrPos(ps.st)
						}
					}
				}
			}
			// or V is the result of a builder whose returned literal is linked
			for _, og := range origins(V) {
				if call := originCall(og); call != nil {
					if callee := call.Common().StaticCallee(); callee != nil {
						for _, ps := range prevStores {
							if ps.f != callee {
								continue
							}
							_, base := asFieldAddr(ps.st.Addr)
							retLinked := false
							eachInstr(callee, func(i ssa.Instruction) {
								if r, ok := i.(*ssa.Return); ok && len(r.Results) > 0 && base != nil && sameValue(r.Results[0], base) {
									retLinked = true
								}
							})
							if retLinked {
								linked = true
								where = c.instrPos(ps.st) + " (in " + callee.Name() + ")"
							}
						}
					}
				}
			}
			why := "the published footer's PrevFooterOffset is set at " + where
			if !linked {
				why = "the footer published here is appended to the current file but its PrevFooterOffset is never set: the history chain is cut (SnapshotPrevious of the new current snapshot finds nothing)"
			}
			o.add(pn, "published footer links to its predecessor", c.instrPos(a.Instr), linked, why)
		}
	}
	// (3b) buildNewFooter links whenever there is a predecessor: every path to a return passes the store, except through storeFooter == nil
	bnf := c.Fn("(*Store).buildNewFooter")
	if sf := paramNamed(bnf, "storeFooter"); sf != nil {
		var st ssa.Instruction
		for _, ps := range prevStores {
			if ps.f == bnf {
				st = ps.st
			}
		}
		if st != nil {
			noPred := func(from, to *ssa.BasicBlock, cond ssa.Value, onTrue bool) bool {
				b, ok := cond.(*ssa.BinOp)
				if !ok || (b.Op != token.EQL && b.Op != token.NEQ) {
					return false
				}
				x, y := b.X, b.Y
				if isNilConst(x) {
					x, y = y, x
				}
				return isNilConst(y) && sameValue(x, sf) && (b.Op == token.EQL) == onTrue
			}
			bad := ""
			eachInstr(bnf, func(i ssa.Instruction) {
				if _, ok := i.(*ssa.Return); ok && bad == "" {
					if !mustPrecede(bnf, i, func(j ssa.Instruction) bool { return j == st }, noPred) {
						bad = c.instrPos(i)
					}
				}
			})
			why := "whenever there is a predecessor footer the link is written"
			if bad != "" {
				why = "buildNewFooter can return (" + bad + ") without having set PrevFooterOffset although storeFooter != nil: the link depends on something else (say, on the predecessor having top-level segments) - for a store whose data is all in child collections every footer links to 0 and the history cannot be walked"
			}
			o.add(c.fname(bnf), "link written on every path with a predecessor", c.instrPos(st), bad == "", why)
		}
	}
	// (4) SnapshotPrevious follows the recorded link: the position handed to ScanFooter is the footer's PrevFooterOffset
	sp := c.Fn("(*Store).snapshotPrevious")
	scanFn := c.Fn("ScanFooter")
	nscan := 0
	for _, k := range callsToFn(sp, scanFn) {
		nscan++
		args := k.Call.Args
		posArg := args[len(args)-1]
		ok := true
		n := 0
		for _, og := range originsDeep(c, posArg) {
			n++
			if fv, _ := loadedField(og); fv != fPrev {
				ok = false
			}
		}
		ok = ok && n > 0
		why := "the scan for the previous footer starts at the recorded PrevFooterOffset"
		if !ok {
			why = "the scan for the previous footer starts at " + accessPath(posArg) + ", not at the footer's PrevFooterOffset: footers that were written but never published (failed sync, abandoned revert) or that precede a same-file compaction enter the history"
		}
		o.add(c.fname(sp), "ScanFooter start position", c.instrPos(k), ok, why)
	}
	if nscan == 0 {
		o.add(c.fname(sp), "ScanFooter start position", c.pos(sp.Pos()), false, "anchor lost: snapshotPrevious no longer scans with ScanFooter")
	}
	// (5) a compaction into a NEW file must not link into the old file: in compact, stores to PrevFooterOffset lie behind partialCompactStart != 0
	compact := c.Fn("(*Store).compact")
	if pcs := paramNamed(compact, "partialCompactStart"); pcs != nil {
		for _, ps := range prevStores {
			if ps.f != compact {
				continue
			}
			ok := mustPrecede(compact, ps.st, neverInstr, func(from, to *ssa.BasicBlock, cond ssa.Value, onTrue bool) bool {
				return isNonZeroTest(cond, pcs, onTrue)
			})
			why := "the link is only written for a same-file (partial) compaction"
			if !ok {
				why = "compact links the compaction footer to an offset of the old file also when partialCompactStart == 0 (full compaction into a new file): SnapshotPrevious then finds a footer at that offset of the NEW file, or loops"
			}
			o.add(c.fname(compact), "store PrevFooterOffset under partialCompactStart != 0", c.instrPos(ps.st), ok, why)
		}
	}
	return o.list
}

func init() {
	register(&Rule{
		ID: "REF-12",
		Doc: "One acquisition per segment location: the mmap references behind a footer's SegmentLocs are taken either by loadSegments (for a footer built by buildNewFooter / writeSegments / " +
			"spliceFooter, or read from disk) or by an explicit SegmentLocs.AddRef() on the copy (revertToSnapshot, whose footer is published without loadSegments) - never both. " +
			"A footer whose locations were pinned with AddRef (in the function itself, or in a helper it was handed to) must not reach loadSegments in that function or its caller: " +
			"the extra reference is never released, so the superseded data file stays open and on disk until the next open.",
		Props: []string{"C07", "C15"},
		Floor: 1,
		Run:   ruleRef12,
	})
}

func ruleRef12(c *Ctx) []*Ob {
	o := newObs(c, "REF-12")
	addRef := c.Fn("(SegmentLocs).AddRef")
	load := c.Fn("(*Footer).loadSegments")
	fSlocs := c.Field("Footer", "SegmentLocs")
	shares := func(a, b ssa.Value) bool {
		if sameValue(a, b) {
			return true
		}
		for _, x := range origins(a) {
			for _, y := range origins(b) {
				if x == y {
					return true
				}
			}
		}
		return false
	}
	loadsOn := func(g *ssa.Function, x ssa.Value) string {
		for _, k := range callsToFn(g, load) {
			if len(k.Call.Args) > 0 && shares(k.Call.Args[0], x) {
				return c.instrPos(k)
			}
		}
		return ""
	}
	n := 0
	for _, f := range c.Funcs {
		if c.isHarness(f) || f == addRef {
			continue
		}
		fn := c.fname(f)
		for _, k := range callsToFn(f, addRef) {
			n++
			if len(k.Call.Args) == 0 {
				continue
			}
			roots := origins(k.Call.Args[0])
			derived := func(v ssa.Value) bool {
				for _, r := range roots {
					if reachesElem(v, r) {
						return true
					}
				}
				return false
			}
			// the footer(s) these locations end up in (or came from)
			var footers []ssa.Value
			for _, a := range fieldAccesses(f, func(v *types.Var) bool { return v == fSlocs }) {
				if a.Kind == "store" && derived(a.Val) {
					footers = append(footers, a.Base)
				}
			}
			for _, r := range roots {
				if fv, base := loadedField(r); fv == fSlocs && base != nil {
					footers = append(footers, base)
				}
			}
			bad := ""
			for _, X := range footers {
				if p := loadsOn(f, X); p != "" {
					bad = "the same footer is handed to loadSegments at " + p
				}
				for _, og := range origins(X) {
					switch x := og.(type) {
					case *ssa.Parameter:
						idx := -1
						for pi, p := range f.Params {
							if p == x {
								idx = pi
							}
						}
						for _, e := range c.Callers(f) {
							cs := e.Instr
							if cs == nil || idx < 0 || idx >= len(cs.Common().Args) {
								continue
							}
							if p := loadsOn(cs.Parent(), cs.Common().Args[idx]); p != "" {
								bad = "the caller " + c.fname(cs.Parent()) + " hands the same footer to loadSegments at " + p
							}
						}
					case *ssa.Alloc:
						// returned to the caller?
						returned := false
						eachInstr(f, func(i ssa.Instruction) {
							if r, ok := i.(*ssa.Return); ok {
								for _, rv := range r.Results {
									if shares(rv, X) {
										returned = true
									}
								}
							}
						})
						if returned {
							for _, e := range c.Callers(f) {
								cs := e.Instr
								call, isCall := cs.(*ssa.Call)
								if !isCall {
									continue
								}
								if res := firstResult(call); res != nil {
									if p := loadsOn(cs.Parent(), res); p != "" {
										bad = "the caller " + c.fname(cs.Parent()) + " hands the returned footer to loadSegments at " + p
									}
								}
							}
						}
					}
				}
			}
			why := "the pinned locations belong to a footer that is not handed to loadSegments"
			if bad != "" {
				why = "these segment locations are pinned here with AddRef and " + bad + ", which takes the same references again: one reference per retained segment is never released - the superseded data file is never closed or removed"
			}
			o.add(fn, "SegmentLocs.AddRef on "+accessPath(k.Call.Args[0]), c.instrPos(k), bad == "", why)
		}
	}
	if n == 0 {
		o.trivial("-", "no explicit SegmentLocs.AddRef", "-", "nothing to decide")
	}
	return o.list
}

func init() {
	register(&Rule{
		ID: "REF-11",
		Doc: "A borrowed stack does not leave its critical section: a value loaded from one of the collection's section pointers (stackDirtyTop/Mid/Base/Clean, lowerLevelSnapshot) that is still used " +
			"after the collection lock was released (Unlock / Cond.Wait), or that is stored into a variable captured from the enclosing function or returned, has first - inside the same critical " +
			"section - been retained with addRef(), or the field was overwritten (the local takes over the field's reference). Otherwise the owner of the field can release the stack " +
			"(the persister closing the written-back base, which closes and nils its lowerLevelSnapshot) while it is still being read.",
		Props: []string{"C02", "C15", "C08"},
		Floor: 4,
		Run:   ruleRef11,
		Exceptions: []string{
			"(*collection).runPersister, stackDirtyBase: only the persister itself ever clears or releases stackDirtyBase, so the field's reference pins the stack for the whole round",
		},
	})
}

func ruleRef11(c *Ctx) []*Ob {
	o := newObs(c, "REF-11")
	except := map[string]string{
		"(*collection).runPersister|stackDirtyBase": "only the persister itself ever clears or releases stackDirtyBase, so the field's reference pins the stack for the whole round",
	}
	for _, f := range c.Funcs {
		if c.isHarness(f) {
			continue
		}
		fn := c.fname(f)
		for _, a := range fieldAccesses(f, func(v *types.Var) bool { return isSectionField(c, v) }) {
			if a.Kind != "load" || isFreshAlloc(a.Base) {
				continue
			}
			L, ok := a.Instr.(ssa.Value)
			if !ok {
				continue
			}
			fieldV := a.Field
			escaped := ""
			pendingWhere := map[string]string{}
			// two walks: inside the section (left=false) and after it (left=true) are distinguished by a flag carried in a side map keyed by block+idx
			var walkFrom func(p point, left bool, seed []ssa.Value, depth int)
			visited := map[string]bool{}
			walkFrom = func(p point, left bool, seed []ssa.Value, depth int) {
				if depth > 6 || escaped != "" {
					return
				}
				walk(p, walkOpts{
					seed: seed, noInline: true,
					visit: func(i ssa.Instruction, t *tracker) bool {
						if escaped != "" {
							return true
						}
						if i == a.Instr {
							return true // the field is read again: a new borrow, decided on its own
						}
						uses := false
						for _, op := range i.Operands(nil) {
							if op != nil && *op != nil && t.vals[*op] {
								uses = true
							}
						}
						if !left {
							// retained or taken over inside the section
							if ci, isCI := i.(ssa.CallInstruction); isCI && uses {
								cc := ci.Common()
								name := ""
								if sf := cc.StaticCallee(); sf != nil {
									name = sf.Name()
								} else if cc.IsInvoke() {
									name = cc.Method.Name()
								}
								if acquireMethods[name] {
									return true
								}
							}
							pending := t.vals[ref11Pending]
							if s, isS := i.(*ssa.Store); isS {
								if fv, base := asFieldAddr(s.Addr); fv == fieldV && base != nil && canonKey(base) == canonKey(a.Base) {
									return true // the field is overwritten: the local now holds the field's reference
								}
								if _, isFV := s.Addr.(*ssa.FreeVar); isFV && t.vals[s.Val] {
									// leaves the section through the captured variable - unless it is retained / taken over before the section ends
									t.vals[ref11Pending] = true
									pendingWhere[s.Addr.Name()] = c.instrPos(i)
									return false
								}
							}
							if _, isR := i.(*ssa.Return); isR && pending {
								escaped = "stored into a captured variable (" + firstKey(pendingWhere) + ")"
								return true
							}
							if r, isR := i.(*ssa.Return); isR && uses && !isExportedRoot(f) && f.Parent() == nil && strings.HasSuffix(f.Name(), "LOCKED") {
								_ = r
								escaped = "returned from a LOCKED helper at " + c.instrPos(i)
								return true
							}
							if isLockBoundary(i) && pending {
								escaped = "stored into a captured variable (" + firstKey(pendingWhere) + ")"
								return true
							}
							if isLockBoundary(i) {
								key := fmt.Sprintf("%p:%d", i.Block(), instrIndex(i))
								if !visited[key] {
									visited[key] = true
									var alive []ssa.Value
									for v := range t.vals {
										alive = append(alive, v)
									}
									if len(t.cells) > 0 || len(alive) > 0 {
										for cell := range t.cells {
											_ = cell
										}
										nt := append([]ssa.Value{}, alive...)
										// continue after the boundary in "left" mode, with the same tracked copies
										walkFromCells(after(i), nt, t, func(p2 point, seed2 []ssa.Value) { walkFrom(p2, true, seed2, depth+1) })
									}
								}
								return true
							}
							return false
						}
						// after the section
						if uses {
							if _, isPhi := i.(*ssa.Phi); !isPhi {
								if _, isDbg := i.(*ssa.DebugRef); !isDbg {
									escaped = "used at " + c.instrPos(i) + " after the collection lock was released"
									return true
								}
							}
						}
						return false
					},
					edge: func(from, to *ssa.BasicBlock, label string, cond ssa.Value, onTrue bool, t *tracker) bool {
						return escaped != "" || label == "nil"
					},
				})
			}
			walkFrom(after(a.Instr), false, []ssa.Value{L}, 0)
			construct := "borrow of " + fieldV.Name()
			if escaped == "" {
				o.add(fn, construct, c.instrPos(a.Instr), true, "the loaded stack is not used outside its critical section without addRef / take-over")
				continue
			}
			if why, isEx := except[fn+"|"+fieldV.Name()]; isEx {
				o.trivial(fn, construct, c.instrPos(a.Instr), "table exception: "+why)
				continue
			}
			o.add(fn, construct, c.instrPos(a.Instr), false, "the stack loaded from "+fieldV.Name()+" is "+escaped+
				" without addRef() and without the field being overwritten in that section: its owner may release it meanwhile (closing its lowerLevelSnapshot), and merges / lookups running on it resolve against nothing")
		}
	}
	return o.list
}

var ref11Pending ssa.Value = ssa.NewConst(constant.MakeBool(true), types.Typ[types.Bool])

func firstKey(m map[string]string) string {
	var ks []string
	for k, v := range m {
		ks = append(ks, k+" at "+v)
	}
	sort.Strings(ks)
	if len(ks) == 0 {
		return "?"
	}
	return ks[0]
}

// walkFromCells continues a walk with the values the tracker currently holds (values only; local cells are re-seeded through their loads).
func walkFromCells(p point, vals []ssa.Value, t *tracker, cont func(point, []ssa.Value)) {
	seed := append([]ssa.Value{}, vals...)
	for cell := range t.cells {
		if refs := cell.Referrers(); refs != nil {
			for _, r := range *refs {
				if ld, ok := r.(*ssa.UnOp); ok && ld.Op == token.MUL {
					seed = append(seed, ld)
				}
			}
		}
	}
	cont(p, seed)
}
