package main

// REF-4 (single owner after a transfer), REF-5 (born owned), R-HIST (history links).

import (
	"fmt"
	"go/token"
	"go/types"

	"golang.org/x/tools/go/ssa"
)

func init() {
	register(&Rule{
		ID: "REF-4",
		Doc: "Single owner after a transfer: a token stored into the owning sink CollectionOptions.LowerLevelInit (consumed by NewCollection, which wraps it in an owning SnapshotWrapper " +
			"that closes it when replaced or on Close) must not be released again by a closure that the same function installs into the same options struct (e.g. the LowerLevelUpdate callback): " +
			"the second release empties the lower level under live readers.",
		Props: []string{"C01", "C02", "C03", "C15"},
		Floor: 1,
		Run:   ruleRef4,
	})
	register(&Rule{
		ID: "REF-5",
		Doc: "Born owned: every Footer literal stores refs with a positive constant; Footers created by deserialisation (json.Unmarshal into a *Footer, whose ChildFooters map yields " +
			"child Footers with refs == 0) must get their refs stored by the loader that walks them (doLoadSegments / ScanFooter) before the parent is returned; otherwise the first " +
			"AddRef/DecRef pair of any reader takes the child to zero and releases it under its parent.",
		Props: []string{"C15", "C02", "C11"},
		Floor: 3,
		Run:   ruleRef5,
	})
	register(&Rule{
		ID: "R-HIST",
		Doc: "History links: every store to Footer.PrevFooterOffset takes its value from the filePos of a Footer (the footer current when the new one is built); Footer.filePos is written only by " +
			"persistFooterUnsynced (the position just written) and by footer literals of ScanFooter (the position just verified); every function that publishes a footer appended to the file of the " +
			"footer it replaces without compacting (persist via buildNewFooter, snapshotRevert) stores PrevFooterOffset of the published footer before persisting it.",
		Props: []string{"C12", "C04"},
		Floor: 3,
		Run:   ruleHist,
	})
}

func init() {
	register(&Rule{
		ID: "REF-6",
		Doc: "Copied owner: when a struct that owns a release handle (iterator.closer, iterator.lowerLevelIter) is copied by value (`old := *iter`) and Close is called on the copy, every owning " +
			"field that the original keeps must be cleared in the copy first – otherwise the same reference is released twice (once through the copy, once through the original).",
		Props: []string{"C15", "C02"},
		Floor: 1,
		Run:   ruleRef6,
	})
}

func ruleRef6(c *Ctx) []*Ob {
	o := newObs(c, "REF-6")
	iterClose := c.Fn("(*iterator).Close")
	fCloser := c.Field("iterator", "closer")
	fLL := c.Field("iterator", "lowerLevelIter")
	for _, f := range c.Funcs {
		fn := c.fname(f)
		for _, k := range callsToFn(f, iterClose) {
			a, ok := k.Call.Args[0].(*ssa.Alloc)
			if !ok {
				continue
			}
			// the alloc is a by-value copy of another iterator
			var src ssa.Value
			if refs := a.Referrers(); refs != nil {
				for _, r := range *refs {
					if st, ok := r.(*ssa.Store); ok && st.Addr == ssa.Value(a) {
						if ld, ok := st.Val.(*ssa.UnOp); ok && ld.Op == token.MUL {
							src = ld.X
						}
					}
				}
			}
			if src == nil {
				continue
			}
			for _, fld := range []*types.Var{fCloser, fLL} {
				// does the original keep this field? (a store to src.fld after the copy means it was replaced)
				replaced := false
				cleared := false
				eachInstr(f, func(i ssa.Instruction) {
					st, ok := i.(*ssa.Store)
					if !ok {
						return
					}
					fv, base := asFieldAddr(st.Addr)
					if fv != fld {
						return
					}
					if base == ssa.Value(a) && isNilConst(st.Val) {
						if mustPrecede(f, k, func(j ssa.Instruction) bool { return j == ssa.Instruction(st) }, nil) {
							cleared = true
						}
					}
					if base == src || sameValue(base, src) {
						if mustPrecede(f, k, func(j ssa.Instruction) bool { return j == ssa.Instruction(st) }, nil) {
							replaced = true
						}
					}
				})
				construct := "Close of a by-value copy: " + fld.Name()
				switch {
				case cleared:
					o.add(fn, construct, c.instrPos(k), true, "the copy's "+fld.Name()+" is cleared before Close: only the original releases it")
				case replaced:
					o.add(fn, construct, c.instrPos(k), true, "the original's "+fld.Name()+" was replaced before the copy is closed: the copy releases the old one")
				default:
					o.add(fn, construct, c.instrPos(k), false,
						"the copy still holds the original's "+fld.Name()+": Close on the copy releases it and Close on the original releases it again - a reference another handle depends on is taken away (premature unmap / file removal)")
				}
			}
		}
	}
	return o.list
}

func init() {
	register(&Rule{
		ID: "REF-7",
		Doc: "Release only what was acquired: a footer built by buildNewFooter / writeSegments carries copies of SegmentLocs whose mmap references are only taken by loadSegments; " +
			"so in persist and compact a DecRef/Close of that footer must be preceded by, and lie behind the nil-error edge of, loadSegments on the same footer " +
			"(releasing it earlier unmaps segments of the footer that is still published).",
		Props: []string{"C06", "C15", "C02"},
		Floor: 1,
		Run:   ruleRef7,
	})
	register(&Rule{
		ID: "REF-8",
		Doc: "Handles are acquired before they are handed out: a function that returns, as a Snapshot or *Footer, a reference-counted object it found in a field or a child map (a shared object, " +
			"not one it just created) calls addRef/AddRef on it on every path to that return – the caller will Close it.",
		Props: []string{"C02", "C15"},
		Floor: 3,
		Run:   ruleRef8,
	})
}

func ruleRef7(c *Ctx) []*Ob {
	o := newObs(c, "REF-7")
	load := c.Fn("(*Footer).loadSegments")
	builders := map[*ssa.Function]bool{c.Fn("(*Store).buildNewFooter"): true, c.Fn("(*Store).writeSegments"): true}
	for _, fnn := range []string{"(*Store).persist", "(*Store).compact"} {
		f := c.Fn(fnn)
		// the footer token: result of a builder call
		var tok ssa.Value
		eachInstr(f, func(i ssa.Instruction) {
			if call, ok := i.(*ssa.Call); ok && builders[call.Call.StaticCallee()] {
				tok = firstResult(call)
			}
		})
		if tok == nil {
			o.add(fnn, "footer under construction", c.pos(f.Pos()), false, "anchor lost: no buildNewFooter / writeSegments call")
			continue
		}
		var loads []*ssa.Call
		for _, k := range callsToFn(f, load) {
			if sameValue(k.Call.Args[0], tok) {
				loads = append(loads, k)
			}
		}
		n := 0
		eachInstr(f, func(i ssa.Instruction) {
			ci, ok := i.(ssa.CallInstruction)
			if !ok {
				return
			}
			recv, isRel := isReleaseCall(ci)
			if !isRel || !sameValue(recv, tok) {
				return
			}
			n++
			ok2 := false
			for _, k := range loads {
				if g, _ := precededAndGuardedBy(f, k, i); g {
					ok2 = true
				}
			}
			why := "the footer is released only after loadSegments took the mmap references it releases"
			if !ok2 {
				why = "the footer under construction is released on a path where loadSegments has not (successfully) run: its SegmentLocs are copies of the published footer's, so the release unmaps segments that are still in use"
			}
			o.add(fnn, "release of the new footer after loadSegments", c.instrPos(i), ok2, why)
		})
		if n == 0 {
			o.trivial(fnn, "release of the new footer after loadSegments", c.pos(f.Pos()), "the function never releases the footer it builds")
		}
	}
	return o.list
}

func init() {
	register(&Rule{
		ID: "REF-9",
		Doc: "Copied segment locations are pinned: a Footer literal whose SegmentLocs are copied from another footer's SegmentLocs shares that footer's mmap references; the function must take its own " +
			"references with SegmentLocs.AddRef() on the copy, or (buildNewFooter) its result must be handed to loadSegments by the publisher, which takes them. Otherwise closing the other footer " +
			"unmaps the data under the new one.",
		Props: []string{"C12", "C15", "C02"},
		Floor: 1,
		Run:   ruleRef9,
	})
}

func ruleRef9(c *Ctx) []*Ob {
	o := newObs(c, "REF-9")
	fSL := c.Field("Footer", "SegmentLocs")
	load := c.Fn("(*Footer).loadSegments")
	for _, f := range c.Funcs {
		fn := c.fname(f)
		eachInstr(f, func(i ssa.Instruction) {
			a, ok := i.(*ssa.Alloc)
			if !ok || typeName(a.Type()) != "Footer" {
				return
			}
			if _, isStruct := a.Type().Underlying().(*types.Pointer).Elem().Underlying().(*types.Struct); !isStruct {
				return
			}
			// the SegmentLocs stored into the literal (also later stores to the same object)
			var stored []*ssa.Store
			if refs := a.Referrers(); refs != nil {
				for _, r := range *refs {
					if fa, ok := r.(*ssa.FieldAddr); ok && fieldAddrVar(fa) == fSL {
						if rr := fa.Referrers(); rr != nil {
							for _, u := range *rr {
								if st, ok := u.(*ssa.Store); ok && st.Addr == ssa.Value(fa) {
									stored = append(stored, st)
								}
							}
						}
					}
				}
			}
			for _, st := range stored {
				// copied from another footer's SegmentLocs?
				copied := backSlice(st.Val, func(v ssa.Value) bool {
					if call, ok := v.(*ssa.Call); ok {
						if b, isB := call.Call.Value.(*ssa.Builtin); isB && b.Name() == "append" {
							for _, arg := range call.Call.Args {
								for n := 0; n < 4; n++ {
									switch x := arg.(type) {
									case *ssa.ChangeType:
										arg = x.X
									case *ssa.Convert:
										arg = x.X
									case *ssa.Slice:
										arg = x.X
									}
								}
								if fv, base := loadedField(arg); fv == fSL && base != ssa.Value(a) {
									return true
								}
							}
						}
					}
					fv, base := loadedField(v)
					return fv == fSL && base != ssa.Value(a)
				})
				if !copied {
					continue
				}
				// pinned in place?
				pinned := false
				eachInstr(f, func(j ssa.Instruction) {
					call, ok := j.(*ssa.Call)
					if !ok {
						return
					}
					sf := call.Call.StaticCallee()
					if sf == nil || sf.Name() != "AddRef" || sf.Signature.Recv() == nil || typeName(sf.Signature.Recv().Type()) != "SegmentLocs" {
						return
					}
					if sameValue(call.Call.Args[0], st.Val) || backSlice(st.Val, func(v ssa.Value) bool { return v == call.Call.Args[0] }) {
						pinned = true
					}
				})
				why := "the copy takes its own mmap references (SegmentLocs.AddRef)"
				if !pinned {
					// or every caller hands the result to loadSegments
					viaLoad := false
					sites := c.Callers(f)
					nOK := 0
					for _, s := range sites {
						if s.Caller == f {
							nOK++
							continue
						}
						call, isCall := s.Instr.(*ssa.Call)
						if !isCall {
							continue
						}
						res := firstResult(call)
						for _, k := range callsToFn(s.Caller, load) {
							if res != nil && sameValue(k.Call.Args[0], res) {
								nOK++
							}
						}
					}
					if len(sites) > 0 && nOK == len(sites) {
						viaLoad = true
						why = "every caller passes the new footer to loadSegments, which takes the mmap references"
					}
					pinned = viaLoad
				}
				if !pinned {
					why = "the new footer copies the SegmentLocs of another footer without taking references on their mappings: when that footer (e.g. a history snapshot) is closed the data is unmapped under the new one"
				}
				o.add(fn, "Footer literal: copied SegmentLocs are pinned", c.instrPos(st), pinned, why)
			}
		})
	}
	return o.list
}

func ruleRef8(c *Ctx) []*Ob {
	o := newObs(c, "REF-8")
	for _, f := range c.Funcs {
		res := f.Signature.Results()
		if res.Len() == 0 {
			continue
		}
		rt := res.At(0).Type()
		tn := typeName(rt)
		if !(tn == "Snapshot" || tn == "Footer") || typePkgPath(rt) != mossPath {
			continue
		}
		fn := c.fname(f)
		eachInstr(f, func(i ssa.Instruction) {
			r, ok := i.(*ssa.Return)
			if !ok {
				return
			}
			for _, og := range origins(r.Results[0]) {
				if isNilConst(og) {
					continue
				}
				// shared: loaded from a field, or an element of a child map
				shared := false
				if fv, _ := loadedField(og); fv != nil && refCountedType(og.Type()) {
					shared = true
				}
				if m, _, isChild := childKeyOf(og); isChild && m != nil && refCountedType(og.Type()) {
					shared = true
				}
				if !shared {
					continue
				}
				// swap-out: the function overwrites the very field it took the object from, so the field's own
				// reference travels with the returned value (REF-2's "returned to the caller")
				swapped := false
				if fv, base := loadedField(og); fv != nil {
					for _, a := range fieldAccesses(f, func(v *types.Var) bool { return v == fv }) {
						if a.Kind == "store" && canonKey(a.Base) == canonKey(base) {
							swapped = true
						}
					}
				}
				if swapped {
					o.trivial(fn, "returned handle "+accessPath(og)+" is acquired", c.instrPos(r), "swap-out: the field is overwritten in the same function, its reference moves to the caller")
					continue
				}
				acquired := mustPrecede(f, r, func(j ssa.Instruction) bool {
					call, isCall := j.(*ssa.Call)
					if !isCall {
						return false
					}
					sf := call.Call.StaticCallee()
					if sf == nil || !acquireMethods[sf.Name()] || len(call.Call.Args) == 0 {
						return false
					}
					return sameValue(call.Call.Args[0], og)
				}, func(from, to *ssa.BasicBlock, cond ssa.Value, onTrue bool) bool {
					// the `x == nil` / `!exists` edges: nothing is handed out
					if b, isB := cond.(*ssa.BinOp); isB && (b.Op == token.EQL || b.Op == token.NEQ) && isNilConst(b.Y) && sameValue(b.X, og) {
						return (b.Op == token.EQL) == onTrue
					}
					return false
				})
				why := "the shared object is addRef'ed before it is returned"
				if !acquired {
					why = "a shared reference-counted object (" + accessPath(og) + ") is handed out without taking a reference: the caller's Close() releases a reference that belongs to the container, and later readers find the object torn down"
				}
				o.add(fn, "returned handle "+accessPath(og)+" is acquired", c.instrPos(r), acquired, why)
			}
		})
	}
	return o.list
}

func isReleaseCall(ci ssa.CallInstruction) (ssa.Value, bool) {
	cc := ci.Common()
	name := ""
	var recv ssa.Value
	if cc.IsInvoke() {
		name, recv = cc.Method.Name(), cc.Value
	} else if sf := cc.StaticCallee(); sf != nil && sf.Signature.Recv() != nil && len(cc.Args) > 0 {
		name, recv = sf.Name(), cc.Args[0]
	}
	switch name {
	case "Close", "DecRef", "decRef":
		return recv, true
	}
	return nil, false
}

func ruleRef4(c *Ctx) []*Ob {
	o := newObs(c, "REF-4")
	fInit := c.Field("CollectionOptions", "LowerLevelInit")
	n := 0
	for _, f := range c.Funcs {
		fn := c.fname(f)
		for _, a := range fieldAccesses(f, func(v *types.Var) bool { return v == fInit }) {
			if a.Kind != "store" {
				continue
			}
			st := a.Instr.(*ssa.Store)
			if isNilConst(st.Val) {
				continue
			}
			n++
			// the cells (captured variables) that hold the token
			cells := map[ssa.Value]bool{}
			backSlice(st.Val, func(v ssa.Value) bool {
				if ld, ok := v.(*ssa.UnOp); ok && ld.Op == token.MUL {
					if al, ok := ld.X.(*ssa.Alloc); ok {
						cells[al] = true
					}
				}
				return false
			})
			optsBase := a.Base
			// closures installed into the same struct
			bad := ""
			var badPos ssa.Instruction
			nclos := 0
			eachInstr(f, func(i ssa.Instruction) {
				st2, ok := i.(*ssa.Store)
				if !ok {
					return
				}
				fv2, base2 := asFieldAddr(st2.Addr)
				if fv2 == nil || base2 != optsBase {
					return
				}
				val2 := st2.Val
				for {
					if ct, isCT := val2.(*ssa.ChangeType); isCT {
						val2 = ct.X
						continue
					}
					if mi, isMI := val2.(*ssa.MakeInterface); isMI {
						val2 = mi.X
						continue
					}
					break
				}
				mc, ok := val2.(*ssa.MakeClosure)
				if !ok {
					return
				}
				nclos++
				cf := mc.Fn.(*ssa.Function)
				for k, b := range mc.Bindings {
					if !cells[b] || k >= len(cf.FreeVars) {
						continue
					}
					fvv := cf.FreeVars[k]
					eachInstr(cf, func(j ssa.Instruction) {
						ci, ok := j.(ssa.CallInstruction)
						if !ok {
							return
						}
						recv, isRel := isReleaseCall(ci)
						if !isRel {
							return
						}
						if backSlice(recv, func(v ssa.Value) bool {
							ld, ok := v.(*ssa.UnOp)
							return ok && ld.Op == token.MUL && ld.X == ssa.Value(fvv)
						}) {
							bad = fmt.Sprintf("the closure installed as %s releases %s", fv2.Name(), fvv.Name())
							badPos = j
						}
					})
				}
			})
			construct := "token -> CollectionOptions.LowerLevelInit, closures installed alongside"
			if bad != "" {
				o.add(fn, construct, c.instrPos(badPos), false,
					bad+" although it was handed to the collection as LowerLevelInit (whose wrapper closes it when the lower level is replaced): it is released twice, and between the two releases readers see a lower level with zero references and no segments")
			} else {
				o.add(fn, construct, c.instrPos(st), true, fmt.Sprintf("none of the %d closure(s) installed into the same options releases the transferred token", nclos))
			}
		}
	}
	if n == 0 {
		o.add("(*Store).openCollection", "token -> CollectionOptions.LowerLevelInit", "?", false, "anchor lost: no function hands a snapshot to LowerLevelInit")
	}
	return o.list
}

func ruleRef5(c *Ctx) []*Ob {
	o := newObs(c, "REF-5")
	fRefs := c.Field("Footer", "refs")
	// (1) literals
	for _, f := range c.Funcs {
		fn := c.fname(f)
		eachInstr(f, func(i ssa.Instruction) {
			a, ok := i.(*ssa.Alloc)
			if !ok || typeName(a.Type()) != "Footer" {
				return
			}
			if _, isStruct := a.Type().Underlying().(*types.Pointer).Elem().Underlying().(*types.Struct); !isStruct {
				return
			}
			pos := false
			if refs := a.Referrers(); refs != nil {
				for _, r := range *refs {
					if fa, ok := r.(*ssa.FieldAddr); ok && fieldAddrVar(fa) == fRefs {
						if rr := fa.Referrers(); rr != nil {
							for _, u := range *rr {
								if st, ok := u.(*ssa.Store); ok && st.Addr == fa {
									if n, isInt := constInt(st.Val); isInt && n >= 1 {
										pos = true
									}
								}
							}
						}
					}
				}
			}
			why := "the literal is created with refs >= 1 (its creator's reference)"
			if !pos {
				why = "the Footer is created with refs == 0: the first AddRef/DecRef pair of a reader releases its segments while it is still reachable"
			}
			o.add(fn, "Footer literal: refs", c.instrPos(a), pos, why)
		})
	}
	// (2) deserialised children
	scan := c.Fn("ScanFooter")
	unm := false
	eachInstr(scan, func(i ssa.Instruction) {
		if ci, ok := i.(ssa.CallInstruction); ok && isStaticCall(ci, "encoding/json", "Unmarshal") {
			for _, arg := range ci.Common().Args {
				if mi, ok := arg.(*ssa.MakeInterface); ok && typeName(mi.X.Type()) == "Footer" {
					unm = true
				}
			}
		}
	})
	if unm {
		set := false
		for _, ln := range []string{"(*Footer).doLoadSegments", "(*Footer).loadSegments", "ScanFooter"} {
			lf := c.Fn(ln)
			for _, a := range fieldAccesses(lf, func(v *types.Var) bool { return v == fRefs }) {
				if a.Kind != "store" {
					continue
				}
				// on a child: base derives from a ChildFooters element, or from the receiver of the recursive loader
				if backSlice(a.Base, func(v ssa.Value) bool {
					if m, _, ok := childKeyOf(v); ok && m.Name() == "ChildFooters" {
						return true
					}
					if p, ok := v.(*ssa.Parameter); ok && lf.Signature.Recv() != nil && p == lf.Params[0] && ln == "(*Footer).doLoadSegments" {
						return true
					}
					return false
				}) {
					set = true
				}
			}
		}
		why := "the loader stores refs on the child Footers it walks"
		if !set {
			why = "json.Unmarshal creates the child Footers of ChildFooters with refs == 0 and no loader sets them: ChildCollectionSnapshot(name) followed by Close takes the child 0 -> 1 -> 0 and releases its segments under its parent"
		}
		o.add("ScanFooter", "json.Unmarshal creates child Footers: refs", c.pos(scan.Pos()), set, why)
	}
	return o.list
}

func ruleHist(c *Ctx) []*Ob {
	o := newObs(c, "R-HIST")
	fPrev := c.Field("Footer", "PrevFooterOffset")
	fPos := c.Field("Footer", "filePos")
	fFooter := c.Field("Store", "footer")
	pf := c.Fn("(*Store).persistFooter")
	// (1) provenance of every PrevFooterOffset store
	type prevStore struct {
		f  *ssa.Function
		st *ssa.Store
	}
	var prevStores []prevStore
	for _, f := range c.Funcs {
		fn := c.fname(f)
		for _, a := range fieldAccesses(f, func(v *types.Var) bool { return v == fPrev }) {
			if a.Kind != "store" {
				continue
			}
			st := a.Instr.(*ssa.Store)
			prevStores = append(prevStores, prevStore{f, st})
			ok := false
			for _, og := range origins(st.Val) {
				if fv, _ := loadedField(og); fv == fPos {
					ok = true
				}
			}
			why := "the link is the filePos of the footer being superseded"
			if !ok {
				why = "PrevFooterOffset is set from " + accessPath(st.Val) + ", not from the superseded footer's filePos: SnapshotPrevious scans from the wrong place"
			}
			o.add(fn, "store PrevFooterOffset", c.instrPos(st), ok, why)
		}
		// (2) who writes filePos
		for _, a := range fieldAccesses(f, func(v *types.Var) bool { return v == fPos }) {
			if a.Kind != "store" {
				continue
			}
			okw := fn == "(*Store).persistFooterUnsynced" || (fn == "ScanFooter" && isFreshAlloc(a.Base))
			why := "written where the footer's position is established"
			if !okw {
				why = "filePos is written outside persistFooterUnsynced / ScanFooter's literal: history links derived from it no longer point at a footer"
			}
			o.add(fn, "store filePos", c.instrPos(a.Instr), okw, why)
		}
	}
	// (2b) a footer loaded from disk knows its own position (it becomes the store's footer after open,
	// and the next round's back-link is taken from its filePos)
	scan := c.Fn("ScanFooter")
	nlit := 0
	eachInstr(scan, func(i ssa.Instruction) {
		a, ok := i.(*ssa.Alloc)
		if !ok || typeName(a.Type()) != "Footer" {
			return
		}
		if _, isStruct := a.Type().Underlying().(*types.Pointer).Elem().Underlying().(*types.Struct); !isStruct {
			return
		}
		nlit++
		set := allocFieldStored(a, fPos)
		why := "the footer read from disk records the position it was found at"
		if !set {
			why = "the footer read from disk does not record its position: after a reopen the first new round (or a revert) writes PrevFooterOffset 0 and every earlier round becomes unreachable through SnapshotPrevious"
		}
		o.add("ScanFooter", "Footer literal: filePos", c.instrPos(a), set, why)
	})
	if nlit == 0 {
		o.add("ScanFooter", "Footer literal: filePos", c.pos(scan.Pos()), false, "anchor lost: ScanFooter builds no Footer")
	}
	// (3) publishers that append to the current file must link
	for _, pn := range []string{"(*Store).persist", "(*Store).snapshotRevert"} {
		f := c.Fn(pn)
		for _, a := range fieldAccesses(f, func(v *types.Var) bool { return v == fFooter }) {
			if a.Kind != "store" || isNilConst(a.Val) || isFreshAlloc(a.Base) {
				continue
			}
			V := a.Val
			linked := false
			where := ""
			// a store in this function on V, before persistFooter(V)
			for _, ps := range prevStores {
				if ps.f != f {
					continue
				}
				_, base := asFieldAddr(ps.st.Addr)
				if base != nil && sameValue(base, V) {
					for _, k := range callsToFn(f, pf) {
						if _, reach := reachableFrom(ps.st, func(j ssa.Instruction) bool { return j == ssa.Instruction(k) }, nil, nil); reach {
							linked = true
							where = c.instrPos(ps.st)
						}
					}
				}
			}
			// or V is the result of a builder whose returned literal is linked
			for _, og := range origins(V) {
				if call := originCall(og); call != nil {
					if callee := call.Common().StaticCallee(); callee != nil {
						for _, ps := range prevStores {
							if ps.f != callee {
								continue
							}
							_, base := asFieldAddr(ps.st.Addr)
							retLinked := false
							eachInstr(callee, func(i ssa.Instruction) {
								if r, ok := i.(*ssa.Return); ok && len(r.Results) > 0 && base != nil && sameValue(r.Results[0], base) {
									retLinked = true
								}
							})
							if retLinked {
								linked = true
								where = c.instrPos(ps.st) + " (in " + callee.Name() + ")"
							}
						}
					}
				}
			}
			why := "the published footer's PrevFooterOffset is set at " + where
			if !linked {
				why = "the footer published here is appended to the current file but its PrevFooterOffset is never set: the history chain is cut (SnapshotPrevious of the new current snapshot finds nothing)"
			}
			o.add(pn, "published footer links to its predecessor", c.instrPos(a.Instr), linked, why)
		}
	}
	return o.list
}
