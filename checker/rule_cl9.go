package main

// CL-9: Close joins every background goroutine of the collection (C16 "Close is final", C12, C04).

import (
	"go/token"
	"go/types"

	"golang.org/x/tools/go/ssa"
)

func init() {
	register(&Rule{
		ID: "CL-9",
		Doc: "Close is synchronous: for every background task the collection starts (a `go m.f()` of a collection method in Start) the channel field that f - or a closure f defers - closes " +
			"when it ends is received from in Close on every path to a return, except along the ReadOnly == true edge (the tasks are not started then). Waiting twice for one task and " +
			"never for the other lets Close return while a persistence round is still writing: the documented close-then-SnapshotRevert sequence is then overtaken by the late round's " +
			"footer, and a reopen races with the old writer.",
		Props: []string{"C16", "C12", "C04"},
		Floor: 2,
		Run:   ruleCL9,
	})
}

func ruleCL9(c *Ctx) []*Ob {
	o := newObs(c, "CL-9")
	start := c.Fn("(*collection).Start")
	closeFn := c.Fn("(*collection).Close")
	fRO := c.Field("CollectionOptions", "ReadOnly")
	// done channels of the tasks started in Start (directly or in helpers it calls)
	type task struct {
		g    *ssa.Function
		done []*types.Var
	}
	var tasks []task
	var scan func(f *ssa.Function, depth int)
	seenF := map[*ssa.Function]bool{}
	scan = func(f *ssa.Function, depth int) {
		if seenF[f] || depth > 2 {
			return
		}
		seenF[f] = true
		eachInstr(f, func(i ssa.Instruction) {
			switch x := i.(type) {
			case *ssa.Go:
				g := x.Call.StaticCallee()
				if g == nil || g.Pkg != c.Moss {
					return
				}
				t := task{g: g}
				var fns []*ssa.Function
				fns = append(fns, g)
				fns = append(fns, g.AnonFuncs...)
				for _, h := range fns {
					eachInstr(h, func(j ssa.Instruction) {
						call, ok := j.(*ssa.Call)
						if !ok {
							return
						}
						if bi, isBi := call.Call.Value.(*ssa.Builtin); isBi && bi.Name() == "close" {
							for _, og := range originsDeep(c, call.Call.Args[0]) {
								if fv, _ := loadedField(og); fv != nil && c.FieldOwner(fv) == "collection" {
									t.done = append(t.done, fv)
								}
							}
						}
					})
				}
				tasks = append(tasks, t)
			case *ssa.Call:
				if h := x.Call.StaticCallee(); h != nil && h.Pkg == c.Moss && h.Blocks != nil {
					scan(h, depth+1)
				}
			}
		})
	}
	scan(start, 0)
	fn := c.fname(closeFn)
	for _, t := range tasks {
		gname := c.fname(t.g)
		if len(t.done) == 0 {
			o.add(fn, "Close waits for "+gname, c.pos(closeFn.Pos()), false,
				"the background task "+gname+" closes no channel field of the collection when it ends: Close has nothing to wait on")
			continue
		}
		isRecv := func(i ssa.Instruction) bool {
			u, ok := i.(*ssa.UnOp)
			if !ok || u.Op != token.ARROW {
				return false
			}
			for _, og := range originsDeep(c, u.X) {
				fv, _ := loadedField(og)
				for _, d := range t.done {
					if fv == d {
						return true
					}
				}
			}
			return false
		}
		ok := true
		var at ssa.Instruction
		eachInstr(closeFn, func(i ssa.Instruction) {
			r, isRet := i.(*ssa.Return)
			if !isRet || !ok {
				return
			}
			if !mustPrecede(closeFn, r, isRecv, flagEdge(fRO, true)) {
				ok = false
				at = r
			}
		})
		names := ""
		for k, d := range t.done {
			if k > 0 {
				names += "/"
			}
			names += d.Name()
		}
		if ok {
			o.add(fn, "Close waits for "+gname, c.pos(closeFn.Pos()), true, "every path to a return receives from "+names+" unless ReadOnly")
		} else {
			o.add(fn, "Close waits for "+gname, c.instrPos(at), false,
				"Close can return without having received from "+names+", the channel "+gname+" closes when it ends: the task may still be running (a persistence round still writing) after Close returned")
		}
	}
	if len(tasks) == 0 {
		o.add(fn, "background tasks", c.pos(start.Pos()), false, "anchor lost: Start launches no background task")
	}
	return o.list
}
