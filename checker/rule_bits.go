package main

// BITS-1: byte order and bit-scan direction agree (C09: shared-prefix arithmetic; C19).

import (
	"golang.org/x/tools/go/ssa"
)

func init() {
	register(&Rule{
		ID: "BITS-1",
		Doc: "The first differing byte of two words is found from the end the byte order put first: where the library scans a value for its first set bit (math/bits.LeadingZerosN / " +
			"TrailingZerosN) and that value is computed from words loaded with encoding/binary, big-endian loads pair with LeadingZeros and little-endian loads with TrailingZeros. The " +
			"opposite pairing yields the position of the LAST differing byte of the word: a shared-prefix length that is too long makes the iterator compare keys from the wrong offset. " +
			"No such site exists on the current tree (keys are compared byte by byte); the rule is conditional on the idiom, its positive control is mutant bits1-*.",
		Props: []string{"C09", "C19"},
		Floor: 0,
		Run:   ruleBits1,
	})
}

func ruleBits1(c *Ctx) []*Ob {
	o := newObs(c, "BITS-1")
	n := 0
	for _, f := range c.Funcs {
		if c.isHarness(f) {
			continue
		}
		fn := c.fname(f)
		eachInstr(f, func(i ssa.Instruction) {
			call, ok := i.(*ssa.Call)
			if !ok {
				return
			}
			sf := call.Call.StaticCallee()
			if sf == nil || sf.Pkg == nil || sf.Pkg.Pkg.Path() != "math/bits" || len(call.Call.Args) != 1 {
				return
			}
			lead := len(sf.Name()) >= 12 && sf.Name()[:12] == "LeadingZeros"
			trail := len(sf.Name()) >= 13 && sf.Name()[:13] == "TrailingZeros"
			if !lead && !trail {
				return
			}
			big, little := false, false
			condSlice(call.Call.Args[0], func(w ssa.Value) bool {
				k, isCall := w.(*ssa.Call)
				if !isCall {
					return false
				}
				h := k.Call.StaticCallee()
				if h == nil || h.Pkg == nil || h.Pkg.Pkg.Path() != "encoding/binary" || h.Signature.Recv() == nil {
					return false
				}
				switch typeName(h.Signature.Recv().Type()) {
				case "bigEndian":
					big = true
				case "littleEndian":
					little = true
				}
				return false
			})
			if !big && !little {
				return
			}
			n++
			okPair := (big && lead && !little) || (little && trail && !big)
			why := "byte order of the loads and direction of the bit scan agree"
			if !okPair {
				why = "the words are loaded " + map[bool]string{true: "big", false: "little"}[big] + "-endian but scanned with " + sf.Name() +
					": the result is the position of the last differing byte of the word, not the first"
			}
			o.add(fn, "bit scan "+sf.Name()+" matches the byte order of its operand", c.instrPos(i), okPair, why)
		})
	}
	if n == 0 {
		o.trivial("-", "no bit scan over words loaded with encoding/binary", "-", "the idiom does not occur (positive control: mutant bits1-*)")
	}
	return o.list
}
