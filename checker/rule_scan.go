package main

// R-SCAN: recovery scans are total (C05).

import (
	"fmt"
	"go/token"
	"sort"

	"golang.org/x/tools/go/ssa"
)

func init() {
	register(&Rule{
		ID: "R-SCAN",
		Doc: "Candidate loops (the newest-first file loop of openStore, the backward page loop of ScanFooter) must fall back to the next candidate when one is bad. " +
			"Every return of a non-nil error that leaves such a loop from its body is an obligation, accepted only if (a) it is the terminal ErrNoValidFooter sentinel, " +
			"(b) its error comes from File.ReadAt and every path to the return passes an `err != io.EOF` edge (a real I/O fault, not a torn tail), " +
			"(c) it lies behind the loop's acceptance point (nil-error edge of ReadFooter in openStore), (d) it comes from binary.Read on an in-memory *bytes.Buffer " +
			"(cannot fail for the fixed sizes read), or (e) it is the loadSegments failure of a candidate that passed framing and JSON validation (table exception). " +
			"Anything else – a candidate failing validation fails the whole open – is a violation.",
		Props: []string{"C05"},
		Floor: 4,
		Run:   ruleScan,
		Exceptions: []string{
			"ScanFooter: return after (*Footer).loadSegments error – by DUR-2/DUR-3 a footer that passed framing and JSON validation only refers to data synced before it was written, so this failure is a resource/I-O fault (C06), not a crash artefact",
		},
	})
	register(&Rule{
		ID: "SCAN-3",
		Doc: "Every framing field gates acceptance on its own: inside a candidate loop, for every variable decoded from candidate bytes (address passed to binary.Read) that is compared with ==/!=, " +
			"the loop's success return is unreachable once the 'equal' edge of that comparison is removed – i.e. a mismatch of that single field always rejects the candidate " +
			"(conditions joined with && instead of || let a lookalike with one matching field through).",
		Props: []string{"C05", "C19"},
		Floor: 1,
		Run:   ruleScan3,
	})
	register(&Rule{
		ID: "SCAN-2",
		Doc: "Inside a candidate loop, a make([]T, n) whose length derives from a variable filled from file bytes (address passed to binary.Read) is dominated by a " +
			"comparison bounding that variable: a negative length panics, which also makes the reopen fail.",
		Props: []string{"C05", "C19"},
		Floor: 1,
		Run:   ruleScan2,
	})
}

// sccOf returns the blocks of the maximal strongly connected component of
// f's CFG that contains block b (nil if b is not on a cycle).
func sccOf(f *ssa.Function, b *ssa.BasicBlock) map[*ssa.BasicBlock]bool {
	// reach forward and backward from b
	fwd := map[*ssa.BasicBlock]bool{}
	var dfs func(x *ssa.BasicBlock)
	dfs = func(x *ssa.BasicBlock) {
		for _, s := range x.Succs {
			if !fwd[s] {
				fwd[s] = true
				dfs(s)
			}
		}
	}
	dfs(b)
	if !fwd[b] {
		return nil
	}
	bwd := map[*ssa.BasicBlock]bool{}
	var dfsb func(x *ssa.BasicBlock)
	dfsb = func(x *ssa.BasicBlock) {
		for _, p := range x.Preds {
			if !bwd[p] {
				bwd[p] = true
				dfsb(p)
			}
		}
	}
	dfsb(b)
	out := map[*ssa.BasicBlock]bool{}
	for x := range fwd {
		if bwd[x] {
			out[x] = true
		}
	}
	return out
}

// loopHeaders: blocks of the SCC with a predecessor outside it.
func loopHeaders(scc map[*ssa.BasicBlock]bool) map[*ssa.BasicBlock]bool {
	h := map[*ssa.BasicBlock]bool{}
	for b := range scc {
		for _, p := range b.Preds {
			if !scc[p] {
				h[b] = true
			}
		}
	}
	return h
}

// bodyExitReturns lists the Return instructions outside the loop that are
// reachable from a non-header block of the loop without passing a header.
func bodyExitReturns(f *ssa.Function, scc map[*ssa.BasicBlock]bool) []*ssa.Return {
	hdr := loopHeaders(scc)
	seen := map[*ssa.BasicBlock]bool{}
	var work []*ssa.BasicBlock
	for b := range scc {
		if hdr[b] {
			continue
		}
		for _, s := range b.Succs {
			if !scc[s] && !seen[s] {
				seen[s] = true
				work = append(work, s)
			}
		}
	}
	var rets []*ssa.Return
	for len(work) > 0 {
		b := work[len(work)-1]
		work = work[:len(work)-1]
		if r, ok := b.Instrs[len(b.Instrs)-1].(*ssa.Return); ok {
			rets = append(rets, r)
		}
		for _, s := range b.Succs {
			if !scc[s] && !seen[s] {
				seen[s] = true
				work = append(work, s)
			}
		}
	}
	sort.Slice(rets, func(i, j int) bool { return rets[i].Block().Index < rets[j].Block().Index })
	return rets
}

type candidateLoop struct {
	fn     string
	anchor func(ssa.CallInstruction) bool
	desc   string
}

func candidateLoops(c *Ctx) []candidateLoop {
	readFooter := c.Fn("ReadFooter")
	return []candidateLoop{
		{"openStore", func(ci ssa.CallInstruction) bool { return ci.Common().StaticCallee() == readFooter }, "file loop"},
		{"ScanFooter", func(ci ssa.CallInstruction) bool { return isInvokeOf(ci, "File", "ReadAt") }, "page loop"},
	}
}

func isGlobalLoad(v ssa.Value, pkgPath, name string) bool {
	u, ok := v.(*ssa.UnOp)
	if !ok || u.Op != token.MUL {
		return false
	}
	g, ok := u.X.(*ssa.Global)
	if !ok || g.Pkg == nil || g.Pkg.Pkg.Path() != pkgPath {
		return false
	}
	return g.Name() == name
}

func ruleScan(c *Ctx) []*Ob {
	o := newObs(c, "R-SCAN")
	readFooter := c.Fn("ReadFooter")
	loadSegments := c.Fn("(*Footer).loadSegments")
	for _, cl := range candidateLoops(c) {
		f := c.Fn(cl.fn)
		var scc map[*ssa.BasicBlock]bool
		for _, ci := range callsIn(f, cl.anchor) {
			if s := sccOf(f, ci.Block()); s != nil {
				scc = s
				break
			}
		}
		if scc == nil {
			scc = largestSCC(f)
		}
		if scc == nil {
			o.add(cl.fn, cl.desc, c.pos(f.Pos()), false, "anchor lost: the candidate "+cl.desc+" is no longer a loop")
			continue
		}
		// acceptance point (openStore): nil-error edge of ReadFooter
		var accept []*ssa.Call
		for _, k := range callsToFn(f, readFooter) {
			if scc[k.Block()] {
				accept = append(accept, k)
			}
		}
		for _, r := range bodyExitReturns(f, scc) {
			ev := r.Results[len(r.Results)-1]
			if !isErrorType(ev.Type()) {
				continue
			}
			accepted := false
			for _, k := range accept {
				if g, _ := precededAndGuardedBy(f, k, r); g {
					accepted = true
				}
			}
			var leafs []ssa.Value
			for _, og := range origins(ev) {
				if !isNilConst(og) {
					leafs = append(leafs, og)
				}
			}
			if len(leafs) == 0 {
				continue // success return
			}
			if accepted {
				o.add(cl.fn, "return error after acceptance ("+describeErrOrigin(leafs[0])+")", c.instrPos(r), true,
					"behind the nil-error edge of ReadFooter: the candidate was already accepted")
				continue
			}
			for _, og := range leafs {
				desc := describeErrOrigin(og)
				construct := cl.desc + ": return error from " + desc
				switch {
				case isGlobalLoad(og, mossPath, "ErrNoValidFooter"):
					o.add(cl.fn, construct, c.instrPos(r), true, "terminal: no candidates left")
				default:
					call := originCall(og)
					switch {
					case call != nil && isInvokeOf(call, "File", "ReadAt"):
						ok := returnOnlyIfNotEOF(call, r)
						why := "every path from ReadAt to this return passes an `err != io.EOF` edge: a real I/O fault"
						if !ok {
							why = "a torn tail makes ReadAt return io.EOF, which reaches this return: the scan aborts instead of moving to the previous candidate"
						}
						o.add(cl.fn, construct, c.instrPos(r), ok, why)
					case call != nil && isStaticCall(call, "encoding/binary", "Read") && readerIsMemBuffer(call):
						o.add(cl.fn, construct, c.instrPos(r), true, "binary.Read on an in-memory *bytes.Buffer of bytes already read: cannot fail for the fixed sizes decoded")
					case call != nil && call.Common().StaticCallee() == loadSegments:
						o.add(cl.fn, construct, c.instrPos(r), true, "table exception: a candidate that passed framing+JSON validation refers only to synced data; this is a resource fault").Trivial = true
					default:
						o.add(cl.fn, construct, c.instrPos(r), false,
							"a candidate that fails this validation makes the whole open fail instead of falling back to the next (older) candidate")
					}
				}
			}
		}
	}
	return o.list
}

func originCall(v ssa.Value) ssa.CallInstruction {
	switch x := v.(type) {
	case *ssa.Call:
		return x
	case *ssa.Extract:
		if call, ok := x.Tuple.(*ssa.Call); ok {
			return call
		}
	}
	return nil
}

func describeErrOrigin(v ssa.Value) string {
	if call := originCall(v); call != nil {
		n := calleeName(call)
		return n
	}
	return accessPath(v)
}

// readerIsMemBuffer: first argument of binary.Read is a *bytes.Buffer made by bytes.NewBuffer.
func readerIsMemBuffer(call ssa.CallInstruction) bool {
	args := call.Common().Args
	if len(args) == 0 {
		return false
	}
	return backSlice(args[0], func(v ssa.Value) bool {
		k, ok := v.(*ssa.Call)
		return ok && isStaticCall(k, "bytes", "NewBuffer")
	})
}

// returnOnlyIfNotEOF: every path from call k (ReadAt) to return r passes an
// edge on which k's error is known to differ from io.EOF.
func returnOnlyIfNotEOF(k ssa.CallInstruction, r *ssa.Return) bool {
	call, ok := k.(*ssa.Call)
	if !ok {
		return false
	}
	idx := errResultIndex(call.Call.Signature())
	reached := false
	walk(after(call), walkOpts{origin: call, originIdx: idx,
		visit: func(i ssa.Instruction, t *tracker) bool {
			if i == ssa.Instruction(r) {
				reached = true
				return true
			}
			return i == ssa.Instruction(call)
		},
		edge: func(from, to *ssa.BasicBlock, label string, cond ssa.Value, onTrue bool, t *tracker) bool {
			if label == "nil" {
				return true // nil error never reaches an error return as this error
			}
			b, ok := cond.(*ssa.BinOp)
			if !ok || (b.Op != token.EQL && b.Op != token.NEQ) {
				return false
			}
			var x, y ssa.Value = b.X, b.Y
			if !t.vals[x] {
				x, y = y, x
			}
			if !t.vals[x] {
				return false
			}
			if !isGlobalLoad(y, "io", "EOF") && !isGlobalLoad(y, "io", "ErrUnexpectedEOF") {
				return false
			}
			neqOnTrue := b.Op == token.NEQ
			return neqOnTrue == onTrue // the "differs from EOF" edge: passing it is what we require
		}})
	return !reached
}

// largestSCC: the biggest loop of f (nil when f has none).
func largestSCC(f *ssa.Function) map[*ssa.BasicBlock]bool {
	var best map[*ssa.BasicBlock]bool
	for _, b := range f.Blocks {
		if best != nil && best[b] {
			continue
		}
		if s := sccOf(f, b); s != nil && len(s) > len(best) {
			best = s
		}
	}
	return best
}

func ruleScan2(c *Ctx) []*Ob {
	o := newObs(c, "SCAN-2")
	for _, cl := range candidateLoops(c) {
		f := c.Fn(cl.fn)
		var scc map[*ssa.BasicBlock]bool
		for _, ci := range callsIn(f, cl.anchor) {
			if s := sccOf(f, ci.Block()); s != nil {
				scc = s
				break
			}
		}
		if scc == nil {
			scc = largestSCC(f)
		}
		if scc == nil {
			continue
		}
		eachInstr(f, func(i ssa.Instruction) {
			ms, ok := i.(*ssa.MakeSlice)
			if !ok || !scc[ms.Block()] {
				return
			}
			if _, isC := ms.Len.(*ssa.Const); isC {
				return
			}
			// which cells filled from the file does the length derive from?
			var cells []*ssa.Alloc
			backSlice(ms.Len, func(v ssa.Value) bool {
				if ld, ok := v.(*ssa.UnOp); ok && ld.Op == token.MUL {
					if a, ok := ld.X.(*ssa.Alloc); ok && addrPassedToCall(a) {
						cells = append(cells, a)
					}
				}
				if bo, ok := v.(*ssa.BinOp); ok {
					// arithmetic: follow both operands
					for _, opnd := range []ssa.Value{bo.X, bo.Y} {
						backSlice(opnd, func(w ssa.Value) bool {
							if ld, ok := w.(*ssa.UnOp); ok && ld.Op == token.MUL {
								if a, ok := ld.X.(*ssa.Alloc); ok && addrPassedToCall(a) {
									cells = append(cells, a)
								}
							}
							return false
						})
					}
				}
				return false
			})
			if len(cells) == 0 {
				return
			}
			for _, cell := range cells {
				bounded := false
				var where ssa.Instruction
				for _, b := range f.Blocks {
					iff, ok := b.Instrs[len(b.Instrs)-1].(*ssa.If)
					if !ok || !b.Dominates(ms.Block()) || b == ms.Block() {
						continue
					}
					cmp, ok := iff.Cond.(*ssa.BinOp)
					if !ok {
						continue
					}
					switch cmp.Op {
					case token.LSS, token.LEQ, token.GTR, token.GEQ:
					default:
						continue
					}
					for _, opnd := range []ssa.Value{cmp.X, cmp.Y} {
						if backSlice(opnd, func(v ssa.Value) bool {
							ld, ok := v.(*ssa.UnOp)
							return ok && ld.Op == token.MUL && ld.X == ssa.Value(cell)
						}) {
							bounded = true
							where = iff
						}
					}
				}
				name := cell.Comment
				why := fmt.Sprintf("length derives from %q (filled from file bytes) and is bounded by the comparison at %s", name, c.instrPos(where))
				if !bounded {
					why = fmt.Sprintf("length derives from %q, filled from file bytes, with no dominating bound check: a foreign or torn candidate can make make() panic and the reopen fail", name)
				}
				o.add(cl.fn, "make(len from "+name+")", c.instrPos(ms), bounded, why)
			}
		})
	}
	return o.list
}

// addrPassedToCall: the address of the alloc is an argument of some call
// (directly or boxed in an interface), i.e. a callee fills it.
func addrPassedToCall(a *ssa.Alloc) bool {
	found := false
	var walkRefs func(v ssa.Value, depth int)
	walkRefs = func(v ssa.Value, depth int) {
		refs := v.Referrers()
		if refs == nil || depth > 3 {
			return
		}
		for _, r := range *refs {
			switch r := r.(type) {
			case ssa.CallInstruction:
				for _, arg := range r.Common().Args {
					if arg == v {
						found = true
					}
				}
			case *ssa.MakeInterface:
				walkRefs(r, depth+1)
			case *ssa.ChangeInterface:
				walkRefs(r, depth+1)
			}
		}
	}
	walkRefs(a, 0)
	return found
}

func ruleScan3(c *Ctx) []*Ob {
	o := newObs(c, "SCAN-3")
	f := c.Fn("ScanFooter")
	scc := largestSCC(f)
	if scc == nil {
		o.add("ScanFooter", "framing comparisons", c.pos(f.Pos()), false, "anchor lost: no candidate loop")
		return o.list
	}
	// success returns: non-nil footer, nil error, leaving the loop
	var succ []*ssa.Return
	eachInstr(f, func(i ssa.Instruction) {
		if r, ok := i.(*ssa.Return); ok && len(r.Results) == 2 && !returnsNil(r.Results[0]) && returnsNil(r.Results[1]) {
			succ = append(succ, r)
		}
	})
	decodedCell := func(v ssa.Value) *ssa.Alloc {
		var cell *ssa.Alloc
		backSlice(v, func(w ssa.Value) bool {
			if ld, ok := w.(*ssa.UnOp); ok && ld.Op == token.MUL {
				if a, ok := ld.X.(*ssa.Alloc); ok && addrPassedToCall(a) {
					cell = a
					return true
				}
			}
			return false
		})
		return cell
	}
	for _, b := range f.Blocks {
		if !scc[b] {
			continue
		}
		iff, ok := b.Instrs[len(b.Instrs)-1].(*ssa.If)
		if !ok {
			continue
		}
		cmp, ok := iff.Cond.(*ssa.BinOp)
		if !ok || (cmp.Op != token.EQL && cmp.Op != token.NEQ) {
			continue
		}
		cell := decodedCell(cmp.X)
		if cell == nil {
			cell = decodedCell(cmp.Y)
		}
		if cell == nil {
			continue
		}
		eqSucc := b.Succs[0]
		if cmp.Op == token.NEQ {
			eqSucc = b.Succs[1]
		}
		reach := false
		for _, r := range succ {
			rr := r
			if !mustPrecede(f, rr, neverInstr, func(from, to *ssa.BasicBlock, cond ssa.Value, onTrue bool) bool {
				return from == b && to == eqSucc
			}) {
				reach = true
			}
		}
		name := cell.Comment
		why := "a mismatch of " + name + " always rejects the candidate"
		if reach {
			why = "the candidate can still be accepted when " + name + " does not match (the mismatch only rejects in combination with another condition): a key or value shaped like a footer is taken for the store's footer"
		}
		o.add("ScanFooter", "framing field "+name+" gates acceptance", c.instrPos(iff), !reach, why)
	}
	return o.list
}

func init() {
	register(&Rule{
		ID: "OPEN-1",
		Doc: "Newest file first: openStore sorts the data file names (whose fixed-width sequence numbers make byte order = age) and then tries them in a loop; the first file with a " +
			"readable footer is adopted and every other file is deleted. The direction of the sort and the direction of the loop index over the same slice must be opposite " +
			"(ascending sort + descending index, or descending sort + ascending index), otherwise an older complete file wins and the newest data is deleted after a crash " +
			"between a compaction's footer sync and the unlink of the old file. Recognised forms: sort.Strings / sort.Sort(sort.StringSlice) / slices.Sort (ascending), " +
			"sort.Sort(sort.Reverse(...)) (descending); an index phi starting at 0 stepping +1, or at len-1 stepping -1. Anything else is reported as undecided.",
		Props: []string{"C05"},
		Floor: 1,
		Run:   ruleOpen1,
	})
}

func ruleOpen1(c *Ctx) []*Ob {
	o := newObs(c, "OPEN-1")
	f := c.Fn("openStore")
	fn := c.fname(f)
	leaves := func(v ssa.Value) map[ssa.Value]bool {
		m := map[ssa.Value]bool{}
		backSlice(v, func(w ssa.Value) bool { m[w] = true; return false })
		return m
	}
	// the sort
	sortDir, sortPos := "", ""
	var sorted map[ssa.Value]bool
	nSort := 0
	eachInstr(f, func(i ssa.Instruction) {
		call, ok := i.(*ssa.Call)
		if !ok {
			return
		}
		switch {
		case isStaticCall(call, "sort", "Strings"), isStaticCall(call, "slices", "Sort"):
			nSort++
			sortDir, sortPos, sorted = "asc", c.instrPos(i), leaves(call.Call.Args[0])
		case isStaticCall(call, "sort", "Sort"), isStaticCall(call, "sort", "Stable"):
			nSort++
			sortPos, sorted = c.instrPos(i), leaves(call.Call.Args[0])
			rev := 0
			for w := range sorted {
				if rc, isC := w.(*ssa.Call); isC && isStaticCall(rc, "sort", "Reverse") {
					rev++
					for k := range leaves(rc.Call.Args[0]) {
						sorted[k] = true
					}
				}
			}
			sortDir = "asc"
			if rev%2 == 1 {
				sortDir = "desc"
			}
		}
	})
	if nSort != 1 {
		o.add(fn, "sort of the file names", c.pos(f.Pos()), false, fmt.Sprintf("undecided: %d recognised sort calls in openStore (expected exactly one)", nSort))
		return o.list
	}
	// the probing loop: the OpenFile call inside a loop, its name argument indexes the sorted slice
	var idx []*ssa.IndexAddr
	eachInstr(f, func(i ssa.Instruction) {
		call, ok := i.(*ssa.Call)
		if !ok || !isFieldFuncCall(call, "StoreOptions", "OpenFile") || len(call.Call.Args) == 0 {
			return
		}
		var scan func(v ssa.Value, depth int)
		scan = func(v ssa.Value, depth int) {
			backSlice(v, func(w ssa.Value) bool {
				ia, isIA := w.(*ssa.IndexAddr)
				if ld, isLd := w.(*ssa.UnOp); isLd && ld.Op == token.MUL {
					ia, isIA = ld.X.(*ssa.IndexAddr)
				}
				if isIA {
					for k := range leaves(ia.X) {
						if sorted[k] {
							idx = append(idx, ia)
							break
						}
					}
				}
				// the name goes through path.Join / filepath.Join
				if jc, isC := w.(*ssa.Call); isC && depth < 3 && (isStaticCall(jc, "path", "Join") || isStaticCall(jc, "path/filepath", "Join")) {
					for _, a := range jc.Call.Args {
						scan(a, depth+1)
					}
				}
				return false
			})
		}
		scan(call.Call.Args[0], 0)
	})
	if len(idx) == 0 {
		o.add(fn, "probing loop over the file names", sortPos, false, "undecided: no OpenFile call in openStore takes its name from an element of the sorted slice")
		return o.list
	}
	for _, ia := range idx {
		dir := "?"
		if ph, ok := ia.Index.(*ssa.Phi); ok && len(ph.Edges) == 2 {
			var init, step ssa.Value
			for _, e := range ph.Edges {
				if b, isB := e.(*ssa.BinOp); isB && (b.X == ph || b.Y == ph) {
					step = e
				} else {
					init = e
				}
			}
			if sb, isB := step.(*ssa.BinOp); isB && init != nil {
				k, _ := sb.Y.(*ssa.Const)
				one := k != nil && k.Value != nil && k.Int64() == 1
				up := one && sb.Op == token.ADD && sb.X == ph
				down := one && sb.Op == token.SUB && sb.X == ph
				if ik, isK := init.(*ssa.Const); isK && ik.Value != nil && ik.Int64() == 0 && up {
					dir = "asc"
				}
				if ik, isK := init.(*ssa.Const); isK && ik.Value != nil && ik.Int64() == -1 && up {
					dir = "asc" // range loop: starts at -1, incremented before use
				}
				if ib, isB := init.(*ssa.BinOp); isB && ib.Op == token.SUB && down {
					if lk, _ := ib.Y.(*ssa.Const); lk != nil && lk.Value != nil && lk.Int64() == 1 {
						if lc, isC := ib.X.(*ssa.Call); isC {
							if bi, isBI := lc.Call.Value.(*ssa.Builtin); isBI && bi.Name() == "len" {
								dir = "desc"
							}
						}
					}
				}
			}
		}
		construct := "file names sorted " + sortDir + ", probed by index"
		switch {
		case dir == "?":
			o.add(fn, construct, c.instrPos(ia), false, "undecided: the index over the sorted file names is not a recognised counting loop (0..len-1 or len-1..0)")
		case dir == sortDir:
			o.add(fn, construct, c.instrPos(ia), false, "the names are sorted "+sortDir+" (at "+sortPos+") and probed "+dir+": the OLDEST readable file is adopted and the newer ones are removed - "+
				"after a crash between a compaction's footer sync and the unlink of the old file the newest data is deleted")
		default:
			o.add(fn, construct, c.instrPos(ia), true, "sorted "+sortDir+" and probed "+dir+": the newest file is tried first")
		}
	}
	return o.list
}

func init() {
	register(&Rule{
		ID: "SCAN-4",
		Doc: "A footer may be as long as it needs to be: in ScanFooter an ordering comparison (<, <=, >, >=) of a length read from the file takes its other side from the framing sizes " +
			"(footerBegLen, footerEndLen, the magic lengths), from the file itself (position, size, bytes read, another field read from the file) - never from the page size or a literal. " +
			"Footers grow by ~140 bytes per persisted segment and child, so any fixed upper bound sooner or later rejects the newest valid footer and a clean reopen silently falls back to an older one.",
		Props: []string{"C04", "C05"},
		Floor: 1,
		Run:   ruleScan4,
	})
}

func ruleScan4(c *Ctx) []*Ob {
	o := newObs(c, "SCAN-4")
	f := c.Fn("ScanFooter")
	fn := c.fname(f)
	fileCell := func(v ssa.Value) bool {
		ld, ok := v.(*ssa.UnOp)
		if !ok || ld.Op != token.MUL {
			return false
		}
		a, ok := ld.X.(*ssa.Alloc)
		return ok && addrPassedToCall(a)
	}
	// leaves of an arithmetic expression
	var leaves func(v ssa.Value, d int, out *[]ssa.Value)
	leaves = func(v ssa.Value, d int, out *[]ssa.Value) {
		if d > 8 {
			*out = append(*out, v)
			return
		}
		switch x := v.(type) {
		case *ssa.BinOp:
			leaves(x.X, d+1, out)
			leaves(x.Y, d+1, out)
		case *ssa.Convert:
			leaves(x.X, d+1, out)
		case *ssa.ChangeType:
			leaves(x.X, d+1, out)
		case *ssa.Phi:
			for _, e := range x.Edges {
				leaves(e, d+1, out)
			}
		default:
			*out = append(*out, v)
		}
	}
	framing := map[string]bool{"footerBegLen": true, "footerEndLen": true, "lenMagicBeg": true, "lenMagicEnd": true}
	n := 0
	eachInstr(f, func(i ssa.Instruction) {
		b, ok := i.(*ssa.BinOp)
		if !ok {
			return
		}
		switch b.Op {
		case token.LSS, token.LEQ, token.GTR, token.GEQ:
		default:
			return
		}
		var lx, ly []ssa.Value
		leaves(b.X, 0, &lx)
		leaves(b.Y, 0, &ly)
		has := func(ls []ssa.Value) bool {
			for _, l := range ls {
				if fileCell(l) {
					return true
				}
			}
			return false
		}
		var other []ssa.Value
		switch {
		case has(lx) && !has(ly):
			other = ly
		case has(ly) && !has(lx):
			other = lx
		default:
			return // both or neither side read from the file
		}
		n++
		bad := ""
		for _, l := range other {
			switch x := l.(type) {
			case *ssa.Const:
				if x.Value != nil && x.Value.String() != "0" && x.Value.String() != "1" {
					bad = "the literal " + x.Value.String()
				}
			case *ssa.UnOp:
				if g, isG := x.X.(*ssa.Global); isG && x.Op == token.MUL && !framing[g.Name()] {
					bad = "the package variable " + g.Name()
				}
			}
		}
		why := "bounded by the framing sizes / the file itself"
		if bad != "" {
			why = "a length read from the file is compared with " + bad + ": a fixed bound on the footer length rejects every footer that outgrows it (one page holds about 29 segments) - the newest footers are skipped on reopen and the store silently reverts to an older state"
		}
		o.add(fn, "bound on a length read from the file", c.instrPos(i), bad == "", why)
	})
	if n == 0 {
		o.add(fn, "bound on a length read from the file", c.pos(f.Pos()), false, "anchor lost: ScanFooter compares no length read from the file (SCAN-2 reports the missing lower bound)")
	}
	return o.list
}

func init() {
	register(&Rule{
		ID: "OPEN-2",
		Doc: "The adopted file is not cleaned up: the list that openStore hands to removeFiles is every name except the one at the index of the file it just adopted - recognised as " +
			"append(names[:i], names[i+1:]...) with i the probing loop's index. (After a fallback to an older file - a half-written compaction file " +
			"is the newest - a list such as names[:len-1] unlinks the file that was just opened and keeps the junk: the next open finds no readable store.) Other forms are reported as undecided.",
		Props: []string{"C05"},
		Floor: 1,
		Run:   ruleOpen2,
	})
}

func ruleOpen2(c *Ctx) []*Ob {
	o := newObs(c, "OPEN-2")
	f := c.Fn("openStore")
	fn := c.fname(f)
	rm := c.Fn("removeFiles")
	// the probing index: index of the IndexAddr feeding the OpenFile call (see OPEN-1)
	var probeIdx []ssa.Value
	eachInstr(f, func(i ssa.Instruction) {
		call, ok := i.(*ssa.Call)
		if !ok || !isFieldFuncCall(call, "StoreOptions", "OpenFile") || len(call.Call.Args) == 0 {
			return
		}
		var scan func(v ssa.Value, d int)
		scan = func(v ssa.Value, d int) {
			backSlice(v, func(w ssa.Value) bool {
				ia, isIA := w.(*ssa.IndexAddr)
				if ld, isLd := w.(*ssa.UnOp); isLd && ld.Op == token.MUL {
					ia, isIA = ld.X.(*ssa.IndexAddr)
				}
				if isIA {
					probeIdx = append(probeIdx, ia.Index)
				}
				if jc, isC := w.(*ssa.Call); isC && d < 3 && (isStaticCall(jc, "path", "Join") || isStaticCall(jc, "path/filepath", "Join")) {
					for _, a := range jc.Call.Args {
						scan(a, d+1)
					}
				}
				return false
			})
		}
		scan(call.Call.Args[0], 0)
	})
	isProbe := func(v ssa.Value) bool {
		for _, p := range probeIdx {
			if sameValue(v, p) {
				return true
			}
		}
		return false
	}
	n := 0
	for _, k := range callsToFn(f, rm) {
		n++
		arg := k.Call.Args[len(k.Call.Args)-1]
		verdict, why := false, "undecided: the list handed to removeFiles is not built in the recognised way (append(names[:i], names[i+1:]...) with i the probing index)"
		for _, og := range origins(arg) {
			call, isC := og.(*ssa.Call)
			if !isC {
				continue
			}
			b, isB := call.Call.Value.(*ssa.Builtin)
			if !isB || b.Name() != "append" || len(call.Call.Args) != 2 {
				continue
			}
			lo, okLo := call.Call.Args[0].(*ssa.Slice)
			hi, okHi := call.Call.Args[1].(*ssa.Slice)
			if !okLo || !okHi {
				continue
			}
			loOK := (lo.Low == nil || isZeroConst(lo.Low)) && lo.High != nil && isProbe(lo.High)
			hiOK := false
			if hb, isHB := hi.Low.(*ssa.BinOp); isHB && hb.Op == token.ADD && isConstInt(hb.Y, 1) && isProbe(hb.X) && hi.High == nil {
				hiOK = true
			}
			sameList := len(origins(lo.X)) > 0 && sameValue(lo.X, hi.X)
			switch {
			case loOK && hiOK && sameList:
				verdict, why = true, "every name except the adopted one (names[:i] + names[i+1:])"
			default:
				verdict, why = false, "the list handed to removeFiles is cut from the file names at bounds that do not leave out exactly the adopted file's index ("+accessPath(call.Call.Args[0])+", "+accessPath(call.Call.Args[1])+
					"): after a fallback to an older file the file just opened is unlinked (and junk is kept); the directory no longer holds a readable store"
			}
		}
		// a plain re-slice of the name list (names[:len-1]) is a definite violation
		for _, og := range origins(arg) {
			if sl, isSl := og.(*ssa.Slice); isSl {
				verdict, why = false, "the list handed to removeFiles is a re-slice of the file names ("+accessPath(sl)+") chosen by position, not by which file was adopted: "+
					"after a fallback to an older file the file just opened is unlinked and the unreadable newer one is kept"
			}
		}
		o.add(fn, "removeFiles list excludes the adopted file", c.instrPos(k), verdict, why)
	}
	if n == 0 {
		o.trivial(fn, "no clean-up of other files", c.pos(f.Pos()), "nothing to decide")
	}
	return o.list
}
