package main

// INC-8: a recursive tree walker does not throw away a tree it built for a child (C08, C07, C11).

import (
	"fmt"
	"go/types"

	"golang.org/x/tools/go/ssa"
)

func init() {
	register(&Rule{
		ID: "INC-8",
		Doc: "Every tree a walker builds for a child is attached to the corresponding tree of the parent: where a self-recursive function returns pointers to tree nodes (segmentStack, Footer, " +
			"collection), each such result of its recursive call is stored into a child map of a value the function returns (or of its receiver / a parameter) - none is dropped. " +
			"mergeSegStacks returns the stack to compact and the base below the splice point; when the children's bases were dropped at the recursive call, a partial compaction resolved " +
			"the merge operations of child collections against nothing (MB-29664, D7).",
		Props: []string{"C08", "C07", "C11"},
		Floor: 3,
		Run:   ruleInc8,
	})
}

func ruleInc8(c *Ctx) []*Ob {
	o := newObs(c, "INC-8")
	isTreePtr := func(t types.Type) bool {
		p, ok := t.(*types.Pointer)
		return ok && treeTypeName(p.Elem()) != ""
	}
	for _, f := range c.Funcs {
		if c.isHarness(f) || f.Parent() != nil {
			continue
		}
		res := f.Signature.Results()
		var treeIdx []int
		for k := 0; k < res.Len(); k++ {
			if isTreePtr(res.At(k).Type()) {
				treeIdx = append(treeIdx, k)
			}
		}
		if len(treeIdx) == 0 {
			continue
		}
		fn := c.fname(f)
		eachInstr(f, func(i ssa.Instruction) {
			call, ok := i.(*ssa.Call)
			if !ok || call.Call.StaticCallee() != f {
				return
			}
			for _, k := range treeIdx {
				// the value of result k of this call
				var v ssa.Value
				if res.Len() == 1 {
					v = call
				} else if refs := call.Referrers(); refs != nil {
					for _, r := range *refs {
						if e, isE := r.(*ssa.Extract); isE && e.Index == k {
							v = e
						}
					}
				}
				construct := fmt.Sprintf("result #%d (%s) of the recursive call is attached to the parent's tree", k, typeName(res.At(k).Type()))
				nilTree := false
				for _, a := range call.Call.Args {
					if isNilConst(a) && isTreePtr(a.Type()) {
						nilTree = true
					}
				}
				if v == nil && nilTree {
					o.trivial(fn, construct, c.instrPos(i), "the call is made without a source tree for the child (a nil tree argument): there is nothing this result could carry")
					continue
				}
				if v == nil {
					o.add(fn, construct, c.instrPos(i), false,
						"the recursive call's result is discarded: the tree built for the child never becomes part of the tree built for the parent")
					continue
				}
				attached := false
				seen := map[ssa.Value]bool{}
				var follow func(x ssa.Value, depth int)
				follow = func(x ssa.Value, depth int) {
					if seen[x] || depth > 6 || attached {
						return
					}
					seen[x] = true
					refs := x.Referrers()
					if refs == nil {
						return
					}
					for _, r := range *refs {
						switch u := r.(type) {
						case *ssa.MapUpdate:
							if u.Value == x {
								if fv, _ := loadedField(u.Map); fv != nil && childMapNames[fv.Name()] {
									attached = true
								}
							}
						case *ssa.Phi:
							follow(u, depth+1)
						case *ssa.Store:
							if u.Val == x {
								// a local cell: follow its loads
								if a, isA := u.Addr.(*ssa.Alloc); isA {
									if ar := a.Referrers(); ar != nil {
										for _, l := range *ar {
											if ld, isL := l.(*ssa.UnOp); isL {
												follow(ld, depth+1)
											}
										}
									}
								}
							}
						case *ssa.Return:
							attached = true // handed on as this call's own result (a pass-through)
						case *ssa.ChangeType:
							follow(u, depth+1)
						}
					}
				}
				follow(v, 0)
				if attached {
					o.add(fn, construct, c.instrPos(i), true, "stored into a child map")
				} else if nilTree {
					o.trivial(fn, construct, c.instrPos(i), "the call is made without a source tree for the child (a nil tree argument): there is nothing this result could carry")
				} else {
					o.add(fn, construct, c.instrPos(i), false,
						"the tree the recursive call built for the child is never stored into a child map of the parent's result: for the parent's caller the child has no such tree (a base of nil: merge operations of child collections are resolved against nothing)")
				}
			}
		})
	}
	return o.list
}
