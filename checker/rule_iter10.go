package main

// ITER-10: whether the end bound applies is decided by a nil test (C09: "nil bounds mean unbounded").

import (
	"go/token"
	"go/types"

	"golang.org/x/tools/go/ssa"
)

func init() {
	register(&Rule{
		ID: "ITER-10",
		Doc: "Nil, and only nil, means unbounded above: wherever an end bound (a []byte parameter that reaches segmentCursor.end, iterator.endKeyExclusive or the end argument of a Cursor / " +
			"StartIterator call) is applied - the store of the searched position into segmentCursor.end, the store into iterator.endKeyExclusive, the call that hands it down - no branch " +
			"condition controlling that site may be computed from len(bound). The empty key is the smallest key, so [start, \"\") is the empty range, not the unbounded one; a length test " +
			"conflates the two (for the lower bound the two coincide, which is why only the end bound is armed). Length tests that control something else (the shared-prefix " +
			"optimisation of startIterator) are not touched.",
		Props: []string{"C09"},
		Floor: 2,
		Run:   ruleIter10,
	})
}

func ruleIter10(c *Ctx) []*Ob {
	o := newObs(c, "ITER-10")
	isEndName := func(n string) bool { return n == "endKeyExclusive" || n == "EndKeyExclusive" }
	// end-bound parameters: []byte parameters named like the bound in the resolved signature, or flowing into an end site
	byteSlice := func(t types.Type) bool {
		s, ok := t.Underlying().(*types.Slice)
		if !ok {
			return false
		}
		b, ok := s.Elem().Underlying().(*types.Basic)
		return ok && b.Kind() == types.Uint8
	}
	type site struct {
		i    ssa.Instruction
		v    ssa.Value
		what string
	}
	for _, f := range c.Funcs {
		if c.isHarness(f) {
			continue
		}
		var sites []site
		eachInstr(f, func(i ssa.Instruction) {
			switch x := i.(type) {
			case *ssa.Store:
				if fa, ok := x.Addr.(*ssa.FieldAddr); ok {
					fv := fieldAddrVar(fa)
					tn := typeName(fa.X.Type())
					if (tn == "segmentCursor" && fv.Name() == "end") || (tn == "iterator" && fv.Name() == "endKeyExclusive") {
						sites = append(sites, site{i, x.Val, "store " + tn + "." + fv.Name()})
					}
				}
			case ssa.CallInstruction:
				cc := x.Common()
				var sig *types.Signature
				if cc.IsInvoke() {
					sig, _ = cc.Method.Type().(*types.Signature)
				} else {
					sig = cc.Signature()
				}
				if sig == nil {
					return
				}
				off := 0
				if !cc.IsInvoke() && sig.Recv() != nil {
					off = 1
				}
				for k := 0; k < sig.Params().Len(); k++ {
					if isEndName(sig.Params().At(k).Name()) && byteSlice(sig.Params().At(k).Type()) && k+off < len(cc.Args) {
						sites = append(sites, site{i, cc.Args[k+off], "end argument of " + calleeName(x)})
					}
				}
			}
		})
		fn := c.fname(f)
		for _, st := range sites {
			// the end-bound parameters this value derives from
			var params []*ssa.Parameter
			seen := map[ssa.Value]bool{}
			var collect func(v ssa.Value, depth int)
			collect = func(v ssa.Value, depth int) {
				backSlice(v, func(w ssa.Value) bool {
					if p, ok := w.(*ssa.Parameter); ok && byteSlice(p.Type()) && !seen[p] {
						seen[p] = true
						params = append(params, p)
					}
					// a position searched for the bound: the bound is an argument of the search
					if call, ok := w.(*ssa.Call); ok && depth > 0 && !seen[call] {
						seen[call] = true
						for _, a := range call.Call.Args {
							if byteSlice(a.Type()) {
								collect(a, depth-1)
							}
						}
					}
					return false
				})
			}
			collect(st.v, 2)
			if len(params) == 0 {
				continue
			}
			bad := ""
			var at ssa.Instruction
			// the sites whose execution decides whether the bound applies: the site itself, and the edges on which
			// the value handed on is replaced by nil (`if len(end) == 0 { end = nil }`)
			ctl := controllingIfs(st.i)
			backSlice(st.v, func(w ssa.Value) bool {
				if phi, ok := w.(*ssa.Phi); ok {
					for k, e := range phi.Edges {
						if isNilConst(e) {
							pred := phi.Block().Preds[k]
							ctl = append(ctl, controllingIfs(pred.Instrs[len(pred.Instrs)-1])...)
							// the edge itself may be the branch
							if iff, isIf := pred.Instrs[len(pred.Instrs)-1].(*ssa.If); isIf {
								ctl = append(ctl, iff)
							}
						}
					}
				}
				return false
			})
			for _, iff := range ctl {
				condSlice(iff.Cond, func(w ssa.Value) bool {
					call, ok := w.(*ssa.Call)
					if !ok {
						return false
					}
					if bi, isBi := call.Call.Value.(*ssa.Builtin); isBi && bi.Name() == "len" {
						for _, og := range origins(call.Call.Args[0]) {
							for _, p := range params {
								if og == ssa.Value(p) {
									bad = p.Name()
									at = iff
								}
							}
						}
					}
					return false
				})
			}
			if bad != "" {
				o.add(fn, st.what+" decided by a nil test of the bound", c.instrPos(at), false,
					"whether the end bound "+bad+" applies depends on len("+bad+"): an empty, non-nil end key - the smallest key, so the range is empty - is treated like nil (unbounded)")
			} else {
				o.add(fn, st.what+" decided by a nil test of the bound", c.instrPos(st.i), true, "no length test of the bound controls this site")
			}
		}
	}
	return o.list
}

// condSlice: backSlice that also descends the operands of comparisons, arithmetic and negations (a branch condition).
func condSlice(v ssa.Value, visit func(ssa.Value) bool) {
	seen := map[ssa.Value]bool{}
	var rec func(v ssa.Value, depth int)
	rec = func(v ssa.Value, depth int) {
		if v == nil || seen[v] || depth > 6 {
			return
		}
		seen[v] = true
		backSlice(v, func(w ssa.Value) bool {
			visit(w)
			switch x := w.(type) {
			case *ssa.BinOp:
				rec(x.X, depth+1)
				rec(x.Y, depth+1)
			case *ssa.UnOp:
				if x.Op != token.MUL {
					rec(x.X, depth+1)
				}
			}
			return false
		})
	}
	rec(v, 0)
}
