package main

// R-LOCK: lock discipline, atomic section moves, cache invalidation,
// atomics (C17, C03, C01, C02, C13, C20).

import (
	"fmt"
	"go/token"
	"go/types"
	"sort"
	"strings"

	"golang.org/x/tools/go/ssa"
)

func init() {
	register(&Rule{
		ID: "LOCK-1",
		Doc: "Guarded fields (frozen table from the 'Protects the fields that follow' comments, confirmed field by field): every read and write of an RW-guarded field and every write of a " +
			"W-guarded field happens with the owning struct's mutex m held – held locally (Lock…Unlock, defer Unlock, across Cond.Wait), or held by every caller up to the API roots " +
			"(lock requirement propagated through the call graph; `go` targets and exported entry points start with nothing held). Objects allocated in the same function are exempt " +
			"(nobody else can see them yet). collection is locked per type: child collections are protected by the root's mutex.",
		Props: []string{"C17", "C03", "C20"},
		Floor: 114,
		Run:   ruleLock1,
		Exceptions: []string{
			"(*Footer).doLoadSegments writes Footer.ss, and initialises Footer.refs of its children: its receiver is always a footer under construction (buildNewFooter / writeSegments result, ScanFooter literal) or a child of one",
			"(*Store).persistSegments writes Footer.SegmentLocs: the footer is the one buildNewFooter just built for this persist, not yet published",
			"(*Footer).spliceFooter writes Footer.SegmentLocs: the receiver is the compaction footer under construction",
			"closures of (*collection).runMerger write segmentStack.refs: ss is the fresh stack snapshot() is still building (callback runs before it is published)",
			"(*collection).snapshot parameter gotLock == true asserts that the caller holds collection.m (checked at every call site)",
		},
	})
	register(&Rule{
		ID: "LOCK-2",
		Doc: "Atomic section moves: within one function, two accesses to the collection's section pointers (stackDirtyTop/Mid/Base/Clean, lowerLevelSnapshot) that can follow each other do so inside one " +
			"critical section: whenever the second is reachable from the first it is reachable without passing Unlock, Lock or Cond.Wait of the collection lock. This covers the merger hand-over " +
			"top->mid, notify mid->base, persister base->clean + lower level, Close, and the five reads of snapshot() and get().",
		Props: []string{"C01", "C03", "C11", "C13"},
		Floor: 22,
		Run:   ruleLock2,
	})
	register(&Rule{
		ID: "LOCK-3",
		Doc: "Cache invalidation: every store to collection.stackDirtyTop/Mid/Base/Clean or lowerLevelSnapshot on a shared collection is preceded, inside the same critical section (no Unlock / Lock / " +
			"Cond.Wait in between), by a call of invalidateLatestSnapshotLOCKED – otherwise a cached snapshot taken before the change is handed out after it. Exempt: stores that cannot change what a " +
			"snapshot contains (listed).",
		Props: []string{"C01", "C02", "C03"},
		Floor: 8,
		Run:   ruleLock3,
		Exceptions: []string{
			"(*collection).mergerMain stores of stackDirtyMid: the merged stack has the same logical content as the one it replaces, and the merger callback invalidated when it ingested top",
			"(*collection).mergerNotifyPersister stores: moving mid to base does not change the union of the sections a snapshot reads",
			"(*collection).Close stores: stopCh is closed and the cache dropped in the first critical section; nothing can be cached afterwards (CL-1)",
		},
	})
	register(&Rule{
		ID: "LOCK-4",
		Doc: "Atomics: every access to a field of a shared *CollectionStats (reached through a `stats` field) is the address operand of a sync/atomic call; " +
			"local / parameter CollectionStats values are exempt; AtomicCopyTo uses reflection and is the one table entry.",
		Props: []string{"C17"},
		Floor: 31,
		Run:   ruleLock4,
	})
	register(&Rule{
		ID: "LOCK-5",
		Doc: "Unlocked writer => readers must skip: mergerNotifyPersister rewrites lowerLevelSnapshot of a published stack under the collection lock only, so every segmentStack.Get whose receiver " +
			"was loaded from a collection section field must pass ReadOptions with SkipLowerLevel == true (the lower level is consulted once, last, through the collection's own reference).",
		Props: []string{"C17", "C10", "C03"},
		Floor: 0,
		Run:   ruleLock5,
	})
}

// ---------------------------------------------------------------- table

type guardKind int

const (
	guardRW guardKind = iota
	guardW
)

var guardedTable = map[string]map[string]guardKind{
	"collection": {
		"stackDirtyTop": guardRW, "stackDirtyMid": guardRW, "stackDirtyBase": guardRW, "stackClean": guardRW,
		"lowerLevelSnapshot": guardRW, "latestSnapshot": guardRW, "waitDirtyIncomingCh": guardRW,
		"waitDirtyOutgoingCh": guardRW, "childCollections": guardRW, "highestIncarNum": guardRW,
	},
	"Store": {
		"refs": guardRW, "footer": guardRW, "nextFNameSeq": guardRW, "fileRefMap": guardRW,
		"totPersists": guardRW, "totCompactions": guardRW, "totCompactionsPartial": guardRW,
		"numLastCompactionBeforeBytes": guardRW, "numLastCompactionAfterBytes": guardRW,
		"totCompactionDecreaseBytes": guardRW, "totCompactionIncreaseBytes": guardRW,
		"maxCompactionDecreaseBytes": guardRW, "maxCompactionIncreaseBytes": guardRW,
		"totCompactionBeforeBytes": guardRW, "totCompactionWrittenBytes": guardRW,
	},
	"segmentStack":    {"refs": guardRW},
	"Footer":          {"refs": guardRW, "SegmentLocs": guardW, "ss": guardW},
	"mmapRef":         {"refs": guardRW, "ext": guardRW, "mm": guardW, "buf": guardW, "fref": guardW},
	"FileRef":         {"refs": guardRW, "beforeCloseCallbacks": guardRW, "afterCloseCallbacks": guardRW, "file": guardW},
	"SnapshotWrapper": {"refCount": guardRW, "ss": guardW, "closer": guardW},
}

var lockTypes = []string{"collection", "Store", "segmentStack", "Footer", "mmapRef", "FileRef", "SnapshotWrapper"}

func lockBit(tn string) uint8 {
	for k, n := range lockTypes {
		if n == tn {
			return 1 << uint(k)
		}
	}
	return 0
}

// lock1Exceptions: (function, Type.field) -> reason
var lock1Exceptions = map[string]string{
	"(*Footer).doLoadSegments|Footer.ss":          "receiver is a footer under construction",
	"(*Footer).doLoadSegments|Footer.refs":        "initialises the count of a child footer that was just deserialised / built: not yet reachable by anyone else",
	"(*Store).persistSegments|Footer.SegmentLocs": "footer just built by buildNewFooter for this persist, unpublished",
	"(*Footer).spliceFooter|Footer.SegmentLocs":   "receiver is the compaction footer under construction",
	"(*collection).runMerger$*|segmentStack.refs": "ss is the fresh stack snapshot() is still building",
}

// lock1Exception looks up the exception table; closures match through "<root>$*".
func lock1Exception(c *Ctx, f *ssa.Function, what string) (string, bool) {
	if r, ok := lock1Exceptions[c.fname(f)+"|"+what]; ok {
		return r, true
	}
	if f.Parent() != nil {
		if r, ok := lock1Exceptions[c.fname(root(f))+"$*|"+what]; ok {
			return r, true
		}
	}
	return "", false
}

// ---------------------------------------------------------------- lockset dataflow

// mutexOpOn: i is m.Lock()/m.Unlock() on field m of a struct of one of the lock types.
func mutexOpOn(i ssa.Instruction) (tn string, op string, deferred bool) {
	var cc *ssa.CallCommon
	switch x := i.(type) {
	case *ssa.Call:
		cc = &x.Call
	case *ssa.Defer:
		cc = &x.Call
		deferred = true
	default:
		return "", "", false
	}
	sf := cc.StaticCallee()
	if sf == nil || sf.Signature.Recv() == nil || typeName(sf.Signature.Recv().Type()) != "Mutex" || typePkgPath(sf.Signature.Recv().Type()) != "sync" {
		return "", "", false
	}
	if sf.Name() != "Lock" && sf.Name() != "Unlock" {
		return "", "", false
	}
	fa, ok := cc.Args[0].(*ssa.FieldAddr)
	if !ok {
		return "", "", false
	}
	return typeName(fa.X.Type()), sf.Name(), deferred
}

type lockFlow struct {
	in map[*ssa.BasicBlock]uint8
	// at returns the lockset just before instruction i
	f *ssa.Function
}

// gotLockParam: the bool parameter of (*collection).snapshot that asserts the caller holds the lock.
func gotLockParam(c *Ctx, f *ssa.Function) *ssa.Parameter {
	if c.fname(f) != "(*collection).snapshot" {
		return nil
	}
	return paramNamed(f, "gotLock")
}

func computeLockFlow(c *Ctx, f *ssa.Function, entry uint8) *lockFlow {
	lf := &lockFlow{in: map[*ssa.BasicBlock]uint8{}, f: f}
	const top = uint8(0xff)
	for _, b := range f.Blocks {
		lf.in[b] = top
	}
	lf.in[f.Blocks[0]] = entry
	glp := gotLockParam(c, f)
	transfer := func(b *ssa.BasicBlock, s uint8) uint8 {
		for _, i := range b.Instrs {
			tn, op, deferred := mutexOpOn(i)
			if tn == "" || deferred {
				continue
			}
			if op == "Lock" {
				s |= lockBit(tn)
			} else {
				s &^= lockBit(tn)
			}
		}
		return s
	}
	for changed := true; changed; {
		changed = false
		for _, b := range f.Blocks {
			s := lf.in[b]
			if s == top && b != f.Blocks[0] {
				continue
			}
			out := transfer(b, s)
			for k, succ := range b.Succs {
				es := out
				if glp != nil {
					if iff, ok := b.Instrs[len(b.Instrs)-1].(*ssa.If); ok {
						cond := iff.Cond
						neg := false
						if u, ok := cond.(*ssa.UnOp); ok && u.Op == token.NOT {
							cond, neg = u.X, true
						}
						if cond == ssa.Value(glp) {
							isTrueEdge := (k == 0) != neg
							if isTrueEdge {
								es |= lockBit("collection")
							}
						}
					}
				}
				n := lf.in[succ] & es
				if lf.in[succ] == top {
					n = es
				}
				if n != lf.in[succ] {
					lf.in[succ] = n
					changed = true
				}
			}
		}
	}
	return lf
}

func (lf *lockFlow) at(i ssa.Instruction) uint8 {
	b := i.Block()
	s := lf.in[b]
	if s == 0xff {
		return 0 // unreachable block
	}
	for _, j := range b.Instrs {
		if j == i {
			return s
		}
		tn, op, deferred := mutexOpOn(j)
		if tn == "" || deferred {
			continue
		}
		if op == "Lock" {
			s |= lockBit(tn)
		} else {
			s &^= lockBit(tn)
		}
	}
	return s
}

// freshValue: v denotes an object allocated in this function or returned
// fresh by a callee (composite literal / new, or a call all of whose
// returns are fresh).
func freshValue(c *Ctx, v ssa.Value, depth int, memo map[*ssa.Function]int) bool {
	if depth > 6 {
		return false
	}
	switch x := v.(type) {
	case *ssa.Alloc:
		return true
	case *ssa.Phi:
		for _, e := range x.Edges {
			if isNilConst(e) {
				continue
			}
			if !freshValue(c, e, depth+1, memo) {
				return false
			}
		}
		return true
	case *ssa.TypeAssert:
		return freshValue(c, x.X, depth+1, memo)
	case *ssa.MakeInterface:
		return freshValue(c, x.X, depth+1, memo)
	case *ssa.ChangeInterface:
		return freshValue(c, x.X, depth+1, memo)
	case *ssa.Extract:
		if call, ok := x.Tuple.(*ssa.Call); ok {
			return freshResult(c, call.Call.StaticCallee(), x.Index, depth, memo)
		}
		if ta, ok := x.Tuple.(*ssa.TypeAssert); ok && x.Index == 0 {
			return freshValue(c, ta.X, depth+1, memo)
		}
	case *ssa.Call:
		return freshResult(c, x.Call.StaticCallee(), 0, depth, memo)
	case *ssa.UnOp:
		if x.Op == token.MUL {
			if a, ok := x.X.(*ssa.Alloc); ok {
				// local variable holding a pointer: all stores fresh
				n := 0
				okAll := true
				if refs := a.Referrers(); refs != nil {
					for _, r := range *refs {
						if st, ok := r.(*ssa.Store); ok && st.Addr == a {
							n++
							if !isNilConst(st.Val) && !freshValue(c, st.Val, depth+1, memo) {
								okAll = false
							}
						}
					}
				}
				return n > 0 && okAll
			}
		}
	}
	return false
}

func freshResult(c *Ctx, callee *ssa.Function, idx int, depth int, memo map[*ssa.Function]int) bool {
	if callee == nil || callee.Blocks == nil || callee.Pkg != c.Moss {
		return false
	}
	switch memo[callee] {
	case 1:
		return true
	case 2:
		return false
	case 3:
		return true // recursion: decided by the other returns
	}
	memo[callee] = 3
	ok := true
	n := 0
	eachInstr(callee, func(i ssa.Instruction) {
		r, isR := i.(*ssa.Return)
		if !isR || idx >= len(r.Results) {
			return
		}
		n++
		for _, og := range origins(r.Results[idx]) {
			if isNilConst(og) {
				continue
			}
			if !freshValue(c, og, depth+1, memo) {
				ok = false
			}
		}
	})
	if n == 0 {
		ok = false
	}
	if ok {
		memo[callee] = 1
	} else {
		memo[callee] = 2
	}
	return ok
}

type guardedAccess struct {
	f     *ssa.Function
	a     access
	tn    string
	need  uint8
	local uint8
}

func isExportedRoot(f *ssa.Function) bool {
	if f.Parent() != nil {
		return false
	}
	obj := f.Object()
	return obj != nil && obj.Exported()
}

func ruleLock1(c *Ctx) []*Ob {
	o := newObs(c, "LOCK-1")
	freshMemo := map[*ssa.Function]int{}
	flows := map[*ssa.Function]*lockFlow{}
	flowOf := func(f *ssa.Function) *lockFlow {
		if lf, ok := flows[f]; ok {
			return lf
		}
		lf := computeLockFlow(c, f, 0)
		flows[f] = lf
		return lf
	}
	want := func(v *types.Var) bool {
		return v.IsField() && guardedFieldOwner(c, v) != ""
	}
	// needs[f]: lock types f requires from its callers; why[f][bit]: one access (or callee chain) that needs it
	type reason struct {
		text string
		pos  string
	}
	needs := map[*ssa.Function]uint8{}
	whyNeed := map[*ssa.Function]map[uint8]reason{}
	setNeed := func(f *ssa.Function, bit uint8, r reason) bool {
		if needs[f]&bit != 0 {
			return false
		}
		needs[f] |= bit
		if whyNeed[f] == nil {
			whyNeed[f] = map[uint8]reason{}
		}
		whyNeed[f][bit] = r
		return true
	}
	var accesses []guardedAccess
	for _, f := range c.Funcs {
		if strings.HasSuffix(c.Fset.Position(f.Pos()).Filename, "smat.go") {
			continue
		}
		lf := flowOf(f)
		for _, a := range fieldAccesses(f, want) {
			tn := guardedFieldOwner(c, a.Field)
			kind := guardedTable[tn][a.Field.Name()]
			isWrite := a.Write
			if a.Kind == "addr" {
				// the address of a lock-guarded field handed to a call (e.g. sync/atomic): the other
				// accesses are plain loads/stores under the mutex, so this one needs the mutex as well
				isWrite = true
				a.Write = true
			}
			if kind == guardW && !isWrite {
				continue
			}
			if freshValue(c, a.Base, 0, freshMemo) {
				continue
			}
			bit := lockBit(tn)
			ga := guardedAccess{f: f, a: a, tn: tn, need: bit, local: lf.at(a.Instr)}
			accesses = append(accesses, ga)
		}
	}
	// seed needs
	for _, ga := range accesses {
		if ga.local&ga.need != 0 {
			continue
		}
		fn := c.fname(ga.f)
		_ = fn
		if _, ok := lock1Exception(c, ga.f, ga.tn+"."+ga.a.Field.Name()); ok {
			continue
		}
		setNeed(ga.f, ga.need, reason{fmt.Sprintf("%s of %s.%s", rw(ga.a), ga.tn, ga.a.Field.Name()), c.instrPos(ga.a.Instr)})
	}
	// the gotLock == true assertion of snapshot is a need at call sites passing true
	snap := c.Fn("(*collection).snapshot")
	// propagate
	violations := map[string]string{} // key: function|bit -> chain
	var rootViol []struct {
		f   *ssa.Function
		bit uint8
	}
	isGoTarget := func(site ssa.CallInstruction) bool { _, ok := site.(*ssa.Go); return ok }
	for changed := true; changed; {
		changed = false
		for _, f := range c.Funcs {
			nb := needs[f]
			if nb == 0 {
				continue
			}
			for bitIdx := range lockTypes {
				bit := uint8(1) << uint(bitIdx)
				if nb&bit == 0 {
					continue
				}
				key := fmt.Sprintf("%s|%d", c.fname(f), bit)
				if _, done := violations[key]; done {
					continue
				}
				sites := c.Callers(f)
				if isExportedRoot(f) || len(sites) == 0 {
					violations[key] = "entry"
					rootViol = append(rootViol, struct {
						f   *ssa.Function
						bit uint8
					}{f, bit})
					continue
				}
				for _, s := range sites {
					if isGoTarget(s.Instr) {
						vk := fmt.Sprintf("%s|%d|go@%s", c.fname(f), bit, c.instrPos(s.Instr))
						if _, done := violations[vk]; !done {
							violations[vk] = "go"
							rootViol = append(rootViol, struct {
								f   *ssa.Function
								bit uint8
							}{f, bit})
						}
						continue
					}
					held := flowOf(s.Caller).at(s.Instr)
					if held&bit != 0 {
						continue
					}
					if setNeed(s.Caller, bit, reason{"call of " + c.fname(f), c.instrPos(s.Instr)}) {
						changed = true
					}
				}
			}
		}
	}
	chainOf := func(f *ssa.Function, bit uint8) []string {
		var chain []string
		seen := map[*ssa.Function]bool{}
		cur := f
		for cur != nil && !seen[cur] {
			seen[cur] = true
			r, ok := whyNeed[cur][bit]
			if !ok {
				break
			}
			chain = append(chain, fmt.Sprintf("%s: %s at %s", c.fname(cur), r.text, r.pos))
			if !strings.HasPrefix(r.text, "call of ") {
				break
			}
			cur = c.FnOpt(strings.TrimPrefix(r.text, "call of "))
		}
		return chain
	}
	// report: one obligation per guarded access; violated when the access's function
	// (transitively through its needs) reaches a root without the lock.
	badRoot := map[*ssa.Function]map[uint8]bool{}
	// a function f is "bad for bit" if needs[f]&bit and (f is root-violating, or some caller chain is)
	var isBad func(f *ssa.Function, bit uint8, seen map[*ssa.Function]bool) (bool, string)
	isBad = func(f *ssa.Function, bit uint8, seen map[*ssa.Function]bool) (bool, string) {
		if needs[f]&bit == 0 || seen[f] {
			return false, ""
		}
		seen[f] = true
		sites := c.Callers(f)
		if isExportedRoot(f) {
			return true, c.fname(f) + " (exported entry point, nothing held)"
		}
		if len(sites) == 0 {
			return true, c.fname(f) + " (no callers: entry point)"
		}
		for _, s := range sites {
			if isGoTarget(s.Instr) {
				return true, fmt.Sprintf("%s started by `go` at %s (nothing held)", c.fname(f), c.instrPos(s.Instr))
			}
			if flowOf(s.Caller).at(s.Instr)&bit != 0 {
				continue
			}
			if b, w := isBad(s.Caller, bit, seen); b {
				return true, w + " -> " + fmt.Sprintf("%s at %s", c.fname(f), c.instrPos(s.Instr))
			}
		}
		return false, ""
	}
	_ = badRoot
	_ = rootViol
	_ = chainOf
	sort.SliceStable(accesses, func(i, j int) bool { return accesses[i].a.Instr.Pos() < accesses[j].a.Instr.Pos() })
	for _, ga := range accesses {
		fn := c.fname(ga.f)
		construct := fmt.Sprintf("%s %s.%s", rw(ga.a), ga.tn, ga.a.Field.Name())
		if ga.local&ga.need != 0 {
			o.add(fn, construct, c.instrPos(ga.a.Instr), true, ga.tn+".m held locally")
			continue
		}
		if reason, ok := lock1Exception(c, ga.f, ga.tn+"."+ga.a.Field.Name()); ok {
			o.trivial(fn, construct, c.instrPos(ga.a.Instr), "table exception: "+reason)
			continue
		}
		bad, chain := isBad(ga.f, ga.need, map[*ssa.Function]bool{})
		if bad {
			ob := o.add(fn, construct, c.instrPos(ga.a.Instr), false,
				fmt.Sprintf("%s.m is not held here and not by every caller: %s", ga.tn, chain))
			ob.Path = strings.Split(chain, " -> ")
		} else {
			o.add(fn, construct, c.instrPos(ga.a.Instr), true, ga.tn+".m held by every caller (requirement propagated through the call graph)")
		}
	}
	// call sites of snapshot(…, gotLock=true) must hold the collection lock
	for _, s := range c.Callers(snap) {
		args := s.Instr.Common().Args
		if len(args) < 4 {
			continue
		}
		v, isConst := constBool(args[3])
		fn := c.fname(s.Caller)
		switch {
		case !isConst:
			o.add(fn, "snapshot(gotLock) argument", c.instrPos(s.Instr), false, "gotLock is not a constant: the lock protocol of snapshot() cannot be decided")
		case v:
			held := flowOf(s.Caller).at(s.Instr)&lockBit("collection") != 0
			if !held {
				bad, chain := isBadCaller(c, s.Caller, flowOf, map[*ssa.Function]bool{})
				if bad {
					o.add(fn, "snapshot(gotLock=true)", c.instrPos(s.Instr), false, "gotLock == true asserts the collection lock is held, but it is not: "+chain)
					continue
				}
			}
			o.add(fn, "snapshot(gotLock=true)", c.instrPos(s.Instr), true, "the collection lock is held at the call (locally or by every caller)")
		default:
			held := flowOf(s.Caller).at(s.Instr)&lockBit("collection") != 0
			why := "gotLock == false and the lock is not held: snapshot() takes it itself"
			if held {
				why = "gotLock == false while the collection lock is already held: snapshot() would self-deadlock"
			}
			o.add(fn, "snapshot(gotLock=false)", c.instrPos(s.Instr), !held, why)
		}
	}
	return o.list
}

// isBadCaller: f (which needs the collection lock at entry) is reachable from a root without it.
func isBadCaller(c *Ctx, f *ssa.Function, flowOf func(*ssa.Function) *lockFlow, seen map[*ssa.Function]bool) (bool, string) {
	if seen[f] {
		return false, ""
	}
	seen[f] = true
	bit := lockBit("collection")
	sites := c.Callers(f)
	if isExportedRoot(f) || len(sites) == 0 {
		return true, c.fname(f) + " (entry point, nothing held)"
	}
	for _, s := range sites {
		if _, isGo := s.Instr.(*ssa.Go); isGo {
			return true, c.fname(f) + " started by `go`"
		}
		if flowOf(s.Caller).at(s.Instr)&bit != 0 {
			continue
		}
		if b, w := isBadCaller(c, s.Caller, flowOf, seen); b {
			return true, w + " -> " + c.fname(f)
		}
	}
	return false, ""
}

func rw(a access) string {
	if a.Write {
		return "write"
	}
	return "read"
}

// guardedFieldOwner returns the struct type name if v is a field listed in the guarded table.
func guardedFieldOwner(c *Ctx, v *types.Var) string {
	for tn, fields := range guardedTable {
		if _, ok := fields[v.Name()]; !ok {
			continue
		}
		if c.FieldOpt(tn, v.Name()) == v {
			return tn
		}
	}
	return ""
}

// ---------------------------------------------------------------- LOCK-2 / LOCK-3

var sectionPtrFields = map[string]bool{"stackDirtyTop": true, "stackDirtyMid": true, "stackDirtyBase": true, "stackClean": true, "lowerLevelSnapshot": true}

func isSectionField(c *Ctx, v *types.Var) bool {
	return sectionPtrFields[v.Name()] && c.FieldOpt("collection", v.Name()) == v
}

// isLockBoundary: Lock / Unlock of the collection mutex, or a Cond.Wait (which releases it).
func isLockBoundary(i ssa.Instruction) bool {
	if tn, _, deferred := mutexOpOn(i); tn == "collection" && !deferred {
		return true
	}
	if _, ok := isCondCall(i, "Wait"); ok {
		return true
	}
	return false
}

// sectionOpeners: the set of points that can open the critical section an
// instruction executes in – walking backwards on every path to the nearest
// Lock / Unlock / Cond.Wait of the collection lock, or the function entry.
func sectionOpeners(c *Ctx, i ssa.Instruction) []string {
	set := map[string]bool{}
	type pt struct {
		b   *ssa.BasicBlock
		idx int // scan instructions idx-1, idx-2, ... of b
	}
	seen := map[*ssa.BasicBlock]bool{}
	work := []pt{{i.Block(), instrIndex(i)}}
	for len(work) > 0 {
		p := work[len(work)-1]
		work = work[:len(work)-1]
		found := false
		for k := p.idx - 1; k >= 0; k-- {
			j := p.b.Instrs[k]
			if isLockBoundary(j) {
				kind := "Wait"
				if _, op, _ := mutexOpOn(j); op != "" {
					kind = op
				}
				set[kind+"@"+c.instrPos(j)] = true
				found = true
				break
			}
		}
		if found {
			continue
		}
		if len(p.b.Preds) == 0 {
			set["entry"] = true
			continue
		}
		for _, pr := range p.b.Preds {
			if !seen[pr] {
				seen[pr] = true
				work = append(work, pt{pr, len(pr.Instrs)})
			}
		}
	}
	var out []string
	for k := range set {
		out = append(out, k)
	}
	sort.Strings(out)
	return out
}

// atomicReaders: functions whose reads of the section pointers must form one critical section.
var atomicReaders = map[string]bool{"(*collection).snapshot": true, "(*collection).get": true, "(*collection).statsSegmentsLOCKED": true}

func ruleLock2(c *Ctx) []*Ob {
	o := newObs(c, "LOCK-2")
	for _, f := range c.Funcs {
		if strings.HasSuffix(c.Fset.Position(f.Pos()).Filename, "smat.go") {
			continue
		}
		fn := c.fname(f)
		var acc []access
		for _, a := range fieldAccesses(f, func(v *types.Var) bool { return isSectionField(c, v) }) {
			if isFreshAlloc(a.Base) {
				continue
			}
			if a.Kind == "store" || (a.Kind == "load" && atomicReaders[fn]) {
				acc = append(acc, a)
			}
		}
		// a helper that performs part of the move: a call of a moss function that itself stores a section pointer counts as
		// an access at the call site - in the caller's section if the helper does not lock, in a section of its own if it does.
		// Only functions that touch section pointers themselves are extended this way (a pure driver such as runMerger, whose
		// steps are separate sections by design, is not).
		ownSection := map[ssa.Instruction]bool{}
		if len(acc) >= 1 {
			eachInstr(f, func(i ssa.Instruction) {
				call, ok := i.(*ssa.Call)
				if !ok {
					return
				}
				g := call.Call.StaticCallee()
				if g == nil || g == f || g.Pkg != c.Moss || g.Blocks == nil {
					return
				}
				for _, ga := range fieldAccesses(g, func(v *types.Var) bool { return isSectionField(c, v) }) {
					if ga.Kind != "store" || isFreshAlloc(ga.Base) {
						continue
					}
					locks := false
					eachInstr(g, func(j ssa.Instruction) {
						if tn, op, _ := mutexOpOn(j); tn == "collection" && op == "Lock" {
							locks = true
						}
					})
					acc = append(acc, access{Field: ga.Field, Base: ga.Base, Instr: i, Write: true, Kind: "store"})
					if locks {
						ownSection[i] = true
					}
					break
				}
			})
		}
		if len(acc) < 2 {
			continue
		}
		sort.SliceStable(acc, func(i, j int) bool { return acc[i].Instr.Pos() < acc[j].Instr.Pos() })
		openers := make([][]string, len(acc))
		for k, a := range acc {
			openers[k] = sectionOpeners(c, a.Instr)
			if ownSection[a.Instr] {
				openers[k] = []string{"the helper's own Lock (call at " + c.instrPos(a.Instr) + ")"}
			}
		}
		for k, a1 := range acc {
			bad := ""
			for j, a2 := range acc {
				if j == k {
					continue
				}
				if _, reach := reachableFrom(a1.Instr, func(i ssa.Instruction) bool { return i == a2.Instr }, nil, nil); !reach {
					continue // alternatives on exclusive branches
				}
				if strings.Join(openers[k], ",") != strings.Join(openers[j], ",") {
					bad = fmt.Sprintf("the %s of %s at %s runs in a different critical section (opened by %s) than this access (opened by %s)",
						rw(a2), a2.Field.Name(), c.instrPos(a2.Instr), strings.Join(openers[j], "|"), strings.Join(openers[k], "|"))
					break
				}
			}
			construct := fmt.Sprintf("%s %s: one critical section with the function's other section accesses", rw(a1), a1.Field.Name())
			if bad != "" {
				o.add(fn, construct, c.instrPos(a1.Instr), false, bad+": in between, a snapshot sees a segment in both sections or in neither")
			} else {
				o.add(fn, construct, c.instrPos(a1.Instr), true, "same critical section (opened by "+strings.Join(openers[k], "|")+")")
			}
		}
	}
	return o.list
}

var lock3Exempt = map[string]string{
	"(*collection).mergerMain":            "replaces mid by a merged stack of identical logical content",
	"(*collection).mergerNotifyPersister": "moves mid to base: the union of sections is unchanged",
	"(*collection).Close":                 "stopCh is closed and the cache dropped in Close's first critical section; no snapshot can be cached afterwards (CL-1)",
}

// onlyCalledFrom: every call chain into f (up to depth levels) starts in one
// and the same function of the set; returns that function's name or "".
func onlyCalledFrom(c *Ctx, f *ssa.Function, set map[string]string, depth int) string {
	if depth == 0 || isExportedRoot(f) {
		return ""
	}
	sites := c.Callers(f)
	if len(sites) == 0 {
		return ""
	}
	owner := ""
	for _, s := range sites {
		if _, isGo := s.Instr.(*ssa.Go); isGo {
			return ""
		}
		name := c.fname(s.Caller)
		if _, ok := set[name]; !ok {
			name = onlyCalledFrom(c, s.Caller, set, depth-1)
		}
		if name == "" || (owner != "" && owner != name) {
			return ""
		}
		owner = name
	}
	return owner
}

func ruleLock3(c *Ctx) []*Ob {
	o := newObs(c, "LOCK-3")
	inval := c.Fn("(*collection).invalidateLatestSnapshotLOCKED")
	for _, f := range c.Funcs {
		if strings.HasSuffix(c.Fset.Position(f.Pos()).Filename, "smat.go") {
			continue
		}
		fn := c.fname(f)
		for _, a := range fieldAccesses(f, func(v *types.Var) bool { return isSectionField(c, v) }) {
			if a.Kind != "store" || isFreshAlloc(a.Base) {
				continue
			}
			construct := "store " + a.Field.Name() + ": cached snapshot invalidated in the same critical section"
			if why, ok := lock3Exempt[fn]; ok {
				o.trivial(fn, construct, c.instrPos(a.Instr), "table exception: "+why)
				continue
			}
			if owner := onlyCalledFrom(c, f, lock3Exempt, 3); owner != "" {
				o.trivial(fn, construct, c.instrPos(a.Instr), "table exception (helper called only from "+owner+"): "+lock3Exempt[owner])
				continue
			}
			bad := !sectionInvalidates(f, a.Instr, inval)
			if bad && !isExportedRoot(f) && f.Parent() == nil {
				// a helper that runs inside its callers' critical section (no Lock / Unlock / Wait of its own): the
				// section is the caller's, so the invalidation may be there - at every call site
				own := false
				eachInstr(f, func(i ssa.Instruction) {
					if isLockBoundary(i) {
						own = true
					}
				})
				if sites := c.Callers(f); !own && len(sites) > 0 {
					all := true
					for _, cs := range sites {
						if cs.Instr.Common().StaticCallee() != f || !sectionInvalidates(cs.Instr.Parent(), cs.Instr, inval) {
							all = false
						}
					}
					if all {
						bad = false
					}
				}
			}
			why := "invalidateLatestSnapshotLOCKED() is called in the same critical section as the store (no Unlock/Lock/Wait in between)"
			if bad {
				why = "the store is reachable from the start of its critical section (function entry, Lock or Cond.Wait) without a call of invalidateLatestSnapshotLOCKED(): a snapshot cached before the change can be handed out after it (a returned batch would be invisible to the next Snapshot)"
			}
			o.add(fn, construct, c.instrPos(a.Instr), !bad, why)
		}
	}
	return o.list
}

// sectionInvalidates: the critical section of f in which site executes calls inval - before the site on every path
// from the section's start, or after it on every path to the section's end.
func sectionInvalidates(f *ssa.Function, site ssa.Instruction, inval *ssa.Function) bool {
	// starts: function entry and the point after every boundary
	starts := []point{entryPoint(f)}
	eachInstr(f, func(i ssa.Instruction) {
		if isLockBoundary(i) {
			starts = append(starts, after(i))
		}
	})
	bad := false
	for _, st := range starts {
		walk(st, walkOpts{visit: func(i ssa.Instruction, t *tracker) bool {
			if i == site {
				bad = true
				return true
			}
			return isCallOf(i, inval) || isLockBoundary(i)
		}})
	}
	if bad {
		// or: every path from the site reaches the invalidation before the section ends
		post := true
		walk(after(site), walkOpts{visit: func(i ssa.Instruction, t *tracker) bool {
			if isCallOf(i, inval) {
				return true
			}
			if isLockBoundary(i) {
				post = false
				return true
			}
			if _, isRet := i.(*ssa.Return); isRet {
				post = false
				return true
			}
			return false
		}})
		if post {
			bad = false
		}
	}
	return !bad
}

// ---------------------------------------------------------------- LOCK-4

func ruleLock4(c *Ctx) []*Ob {
	o := newObs(c, "LOCK-4")
	statsT := c.Named("CollectionStats")
	for _, f := range c.Funcs {
		if strings.HasSuffix(c.Fset.Position(f.Pos()).Filename, "smat.go") {
			continue
		}
		fn := c.fname(f)
		if fn == "(*CollectionStats).AtomicCopyTo" {
			continue
		}
		eachInstr(f, func(i ssa.Instruction) {
			fa, ok := i.(*ssa.FieldAddr)
			if !ok {
				return
			}
			pt, ok := fa.X.Type().Underlying().(*types.Pointer)
			if !ok || !types.Identical(pt.Elem(), statsT) {
				return
			}
			// shared: base loaded from a field named stats
			shared := false
			for _, og := range origins(fa.X) {
				if fv, _ := loadedField(og); fv != nil && fv.Name() == "stats" {
					shared = true
				}
			}
			if !shared {
				return
			}
			fv := fieldAddrVar(fa)
			okAll := true
			if refs := fa.Referrers(); refs != nil {
				for _, r := range *refs {
					call, isCall := r.(ssa.CallInstruction)
					if isCall {
						sf := call.Common().StaticCallee()
						if sf != nil && sf.Pkg != nil && sf.Pkg.Pkg.Path() == "sync/atomic" && len(call.Common().Args) > 0 && call.Common().Args[0] == ssa.Value(fa) {
							continue
						}
					}
					if _, isDbg := r.(*ssa.DebugRef); isDbg {
						continue
					}
					okAll = false
				}
			}
			why := "accessed only as the address operand of sync/atomic"
			if !okAll {
				why = "a shared statistics counter is read or written without sync/atomic while other goroutines update it atomically: a data race"
			}
			o.add(fn, "stats."+fv.Name(), c.instrPos(fa), okAll, why)
		})
	}
	return o.list
}

// ---------------------------------------------------------------- LOCK-5

func ruleLock5(c *Ctx) []*Ob {
	o := newObs(c, "LOCK-5")
	ssGet := c.Fn("(*segmentStack).Get")
	fSkip := c.Field("ReadOptions", "SkipLowerLevel")
	for _, f := range c.Funcs {
		fn := c.fname(f)
		for _, k := range callsToFn(f, ssGet) {
			recv := k.Call.Args[0]
			sect := ""
			for _, og := range origins(recv) {
				if fv, _ := loadedField(og); fv != nil && isSectionField(c, fv) && fv.Name() != "lowerLevelSnapshot" {
					sect = fv.Name()
				}
			}
			if sect == "" {
				continue
			}
			arg := k.Call.Args[2]
			ok := false
			why := "the ReadOptions passed are " + accessPath(arg)
			if ld, isLd := arg.(*ssa.UnOp); isLd && ld.Op == token.MUL {
				if a, isA := ld.X.(*ssa.Alloc); isA {
					var trueStores []*ssa.Store
					otherField := false
					var whole []*ssa.Store
					if refs := a.Referrers(); refs != nil {
						for _, r := range *refs {
							switch x := r.(type) {
							case *ssa.Store:
								if x.Addr == ssa.Value(a) {
									whole = append(whole, x)
								}
							case *ssa.FieldAddr:
								if fieldAddrVar(x) != fSkip {
									continue
								}
								if rr := x.Referrers(); rr != nil {
									for _, u := range *rr {
										if st, isSt := u.(*ssa.Store); isSt && st.Addr == ssa.Value(x) {
											if v, isC := constBool(st.Val); isC && v {
												trueStores = append(trueStores, st)
											} else {
												otherField = true
											}
										}
									}
								}
							}
						}
					}
					for _, ts := range trueStores {
						if !mustPrecede(f, k, func(i ssa.Instruction) bool { return i == ssa.Instruction(ts) }, nil) {
							continue
						}
						clobbered := false
						for _, w := range whole {
							if _, r1 := reachableFrom(ts, func(i ssa.Instruction) bool { return i == ssa.Instruction(w) }, func(i ssa.Instruction) bool { return i == ssa.Instruction(k) }, nil); r1 {
								clobbered = true
							}
						}
						if !clobbered && !otherField {
							ok = true
							why = "SkipLowerLevel is set to true on the options passed, on every path"
						}
					}
				}
			}
			if !ok {
				why = "the section stack's Get may descend into its own lowerLevelSnapshot (" + why + "), which mergerNotifyPersister rewrites without the stack's lock: a race, and the lower level may shadow a newer section"
			}
			o.add(fn, sect+".Get passes SkipLowerLevel", c.instrPos(k), ok, why)
		}
	}
	return o.list
}
