package main

// report.go: obligations, rule registry, known findings, evidence files.

import (
	"encoding/json"
	"fmt"
	"os"
	"path/filepath"
	"sort"
	"strings"
)

const (
	Holds    = "holds"
	Violated = "violated"
)

// Ob is one proof obligation produced by a rule on the loaded program.
type Ob struct {
	Rule      string `json:"rule"`
	Key       string `json:"key"` // rule|function|construct – never a position
	Func      string `json:"function"`
	Construct string `json:"construct"`
	Pos       string `json:"pos"`
	Verdict   string `json:"verdict"`
	Why       string `json:"why"`
	// Trivial obligations are discharged without looking at control or data
	// flow (e.g. a constructor literal); they do not count as nontrivial.
	Trivial bool     `json:"trivial,omitempty"`
	Config  string   `json:"config,omitempty"`
	Status  string   `json:"status,omitempty"` // "", "known", "VIOLATION"
	Path    []string `json:"path,omitempty"`
}

// Rule is one rule family member.
type Rule struct {
	ID    string
	Doc   string
	Props []string
	// Floor is the minimum number of obligations confirmed by hand on the
	// pinned tree; fewer means the rule lost its anchors (vacuous pass).
	Floor int
	Run   func(c *Ctx) []*Ob
	// Exceptions are the table entries (with reasons) the rule uses.
	Exceptions []string
}

var rules []*Rule

func register(r *Rule) { rules = append(rules, r) }

func rulesFor(prop string) []*Rule {
	var out []*Rule
	for _, r := range rules {
		for _, p := range r.Props {
			if p == prop {
				out = append(out, r)
			}
		}
	}
	return out
}

// obs is a small builder used by rules.
type obs struct {
	c    *Ctx
	rule string
	list []*Ob
	keys map[string]int
}

func newObs(c *Ctx, rule string) *obs { return &obs{c: c, rule: rule, keys: map[string]int{}} }

func (o *obs) add(fn, construct, pos string, ok bool, why string) *Ob {
	key := o.rule + "|" + fn + "|" + construct
	o.keys[key]++
	if n := o.keys[key]; n > 1 {
		key = fmt.Sprintf("%s#%d", key, n)
	}
	v := Holds
	if !ok {
		v = Violated
	}
	ob := &Ob{Rule: o.rule, Key: key, Func: fn, Construct: construct, Pos: pos, Verdict: v, Why: why, Config: o.c.Config.Name}
	o.list = append(o.list, ob)
	return ob
}

func (o *obs) trivial(fn, construct, pos string, why string) *Ob {
	ob := o.add(fn, construct, pos, true, why)
	ob.Trivial = true
	return ob
}

// ---------------------------------------------------------------- known findings

type Finding struct {
	ID         string   `json:"id"`
	Status     string   `json:"status"` // "known" | "fixed"
	Properties []string `json:"properties"`
	Keys       []string `json:"keys"`
	What       string   `json:"what"`
	Repro      string   `json:"repro,omitempty"`
	Commit     string   `json:"commit,omitempty"`
}

type FindingsFile struct {
	Findings []Finding `json:"findings"`
}

func loadFindings(path string) *FindingsFile {
	b, err := os.ReadFile(path)
	if err != nil {
		broken("known findings file %s: %v", path, err)
	}
	var ff FindingsFile
	if err := json.Unmarshal(b, &ff); err != nil {
		broken("known findings file %s: %v", path, err)
	}
	return &ff
}

func (ff *FindingsFile) known(key string) *Finding {
	for i := range ff.Findings {
		f := &ff.Findings[i]
		if f.Status != "known" {
			continue
		}
		for _, k := range f.Keys {
			if k == key {
				return f
			}
		}
	}
	return nil
}

// ---------------------------------------------------------------- evidence

type universe struct {
	Configs   []string       `json:"configs"`
	Packages  int            `json:"packages"`
	Files     int            `json:"files"`
	Functions int            `json:"functions"`
	CGNodes   int            `json:"cg_nodes"`
	CGEdges   int            `json:"cg_edges"`
	CallGraph string         `json:"call_graph"`
	PerRule   map[string]int `json:"per_rule_instances"`
	Floors    map[string]int `json:"per_rule_floors"`
}

type evidence struct {
	PropertyID  string                 `json:"property_id"`
	Tier        string                 `json:"tier"`
	Seed        int                    `json:"seed"`
	Level       string                 `json:"level"`
	Coverage    map[string]interface{} `json:"coverage"`
	Assumptions []string               `json:"assumptions"`
	WallS       float64                `json:"wall_s"`
	Violations  int                    `json:"violations"`
}

func writeJSON(path string, v interface{}) {
	if err := os.MkdirAll(filepath.Dir(path), 0o755); err != nil {
		broken("mkdir %s: %v", filepath.Dir(path), err)
	}
	b, err := json.MarshalIndent(v, "", " ")
	if err != nil {
		broken("marshal %s: %v", path, err)
	}
	if err := os.WriteFile(path, append(b, '\n'), 0o644); err != nil {
		broken("write %s: %v", path, err)
	}
}

func sortObs(l []*Ob) {
	sort.SliceStable(l, func(i, j int) bool {
		if l[i].Rule != l[j].Rule {
			return l[i].Rule < l[j].Rule
		}
		return l[i].Key < l[j].Key
	})
}

func ruleTexts(rs []*Rule) string {
	var sb strings.Builder
	for _, r := range rs {
		fmt.Fprintf(&sb, "[%s] %s\n", r.ID, r.Doc)
	}
	return sb.String()
}
