package main

// R-RO: ReadOnly guards every directory mutation (C18).

import (
	"fmt"
	"go/constant"
	"go/token"
	"go/types"
	"strings"

	"golang.org/x/tools/go/ssa"
)

func init() {
	register(&Rule{
		ID: "R-RO",
		Doc: "Every directory-mutating site – os.Remove/RemoveAll/Rename/Mkdir*/Create/Truncate/Chmod/Link/Symlink/WriteFile/CreateTemp, and every call of os.OpenFile or of a value of moss's " +
			"OpenFile func type whose flag operand may contain O_WRONLY|O_RDWR|O_APPEND|O_CREATE|O_TRUNC – is ReadOnly-guarded: inside its function it is reachable only through the " +
			"false edge of a read of CollectionOptions.ReadOnly, or (recursively) every call site of its function – for a closure: the site that creates it – is so guarded; " +
			"exported functions/methods are roots that nobody guards. A flag operand that is a φ counts per incoming edge; a function whose flag operand is its own parameter is a forwarder " +
			"(its callers carry the obligation). Writes through an open handle are covered by the handle having been opened O_RDONLY.",
		Props: []string{"C18"},
		Floor: 3,
		Run:   ruleRO,
		Exceptions: []string{
			"smat.go (build tag gofuzz): fuzzing harness, not part of the library's API surface",
		},
	})
}

var osMutators = map[string]bool{
	"Remove": true, "RemoveAll": true, "Rename": true, "Mkdir": true, "MkdirAll": true, "Create": true,
	"Truncate": true, "Chmod": true, "Chown": true, "Chtimes": true, "Link": true, "Symlink": true,
	"WriteFile": true, "CreateTemp": true, "MkdirTemp": true,
}
var ioutilMutators = map[string]bool{"WriteFile": true, "TempFile": true, "TempDir": true}

func osConst(c *Ctx, name string) int64 {
	p := c.Prog.ImportedPackage("os")
	if p == nil {
		broken("UNRESOLVED anchor=package os")
	}
	k, ok := p.Pkg.Scope().Lookup(name).(*types.Const)
	if !ok {
		broken("UNRESOLVED anchor=os.%s", name)
	}
	v, _ := constant.Int64Val(k.Val())
	return v
}

type roAnalysis struct {
	c        *Ctx
	fRO      *types.Var
	memo     map[*ssa.Function]int // 0 unknown, 1 guarded, 2 not, 3 in progress
	writeMsk int64
	// local, when set, replaces the ReadOnly test as the guard (the same call-graph reachability serves other gates); what names it in reports
	local func(f *ssa.Function, instr ssa.Instruction) bool
	what  string
	// okRoot, when set, names API roots that are not entry points for this class of obligation (with the reason)
	okRoot func(f *ssa.Function) bool
}

// locallyGuarded: instr is reachable in its function only via ReadOnly==false edges.
func (ra *roAnalysis) locallyGuarded(f *ssa.Function, instr ssa.Instruction) bool {
	if ra.local != nil {
		return ra.local(f, instr)
	}
	return mustPrecede(f, instr, func(ssa.Instruction) bool { return false }, flagEdge(ra.fRO, false))
}

func (ra *roAnalysis) guardName() string {
	if ra.what != "" {
		return ra.what
	}
	return "ReadOnly"
}

func (ra *roAnalysis) isRoot(f *ssa.Function) bool {
	if f.Parent() != nil {
		return false
	}
	obj := f.Object()
	if obj == nil {
		return false
	}
	return obj.Exported()
}

// funcGuarded: every way of entering f passes a ReadOnly guard. chain
// receives one unguarded entry chain when the answer is false.
func (ra *roAnalysis) funcGuarded(f *ssa.Function, chain *[]string) bool {
	switch ra.memo[f] {
	case 1, 3:
		return true // 3: on a cycle – decided by the other entries
	case 2:
		*chain = append(*chain, ra.c.fname(f)+" (unguarded, see above)")
		return false
	}
	ra.memo[f] = 3
	ok := ra.funcGuardedUncached(f, chain)
	if ok {
		ra.memo[f] = 1
	} else {
		ra.memo[f] = 2
	}
	return ok
}

func (ra *roAnalysis) funcGuardedUncached(f *ssa.Function, chain *[]string) bool {
	c := ra.c
	if ra.isRoot(f) {
		if ra.okRoot != nil && ra.okRoot(f) {
			return true
		}
		*chain = append(*chain, c.fname(f)+" (exported API root)")
		return false
	}
	if p := f.Parent(); p != nil {
		// closure: guarded if every creation site is guarded
		n := 0
		ok := true
		eachInstr(p, func(i ssa.Instruction) {
			mc, isMC := i.(*ssa.MakeClosure)
			if !isMC || mc.Fn != f || !ok {
				return
			}
			n++
			if ra.locallyGuarded(p, mc) {
				return
			}
			if !ra.funcGuarded(p, chain) {
				*chain = append(*chain, fmt.Sprintf("%s creates the closure at %s", c.fname(p), c.instrPos(mc)))
				ok = false
			}
		})
		if n == 0 {
			// not created through MakeClosure (no free variables): treat via call graph
			return ra.callersGuarded(f, chain)
		}
		return ok
	}
	return ra.callersGuarded(f, chain)
}

func (ra *roAnalysis) callersGuarded(f *ssa.Function, chain *[]string) bool {
	c := ra.c
	sites := c.Callers(f)
	if len(sites) == 0 {
		*chain = append(*chain, c.fname(f)+" (no callers found: treated as entry point)")
		return false
	}
	for _, s := range sites {
		if s.Caller.Pkg != c.Moss && root(s.Caller).Pkg != c.Moss {
			continue
		}
		if ra.locallyGuarded(s.Caller, s.Instr) {
			continue
		}
		if !ra.funcGuarded(s.Caller, chain) {
			*chain = append(*chain, fmt.Sprintf("%s calls %s at %s without a %s guard", c.fname(s.Caller), c.fname(f), c.instrPos(s.Instr), ra.guardName()))
			return false
		}
	}
	return true
}

func (ra *roAnalysis) siteGuarded(f *ssa.Function, instr ssa.Instruction) (bool, []string) {
	if ra.locallyGuarded(f, instr) {
		return true, nil
	}
	var chain []string
	if ra.funcGuarded(f, &chain) {
		return true, nil
	}
	return false, chain
}

// flagWriteEdges classifies the flag operand: returns ("const", writes) or
// ("param", …) for forwarders, or per-φ-edge results.
func (ra *roAnalysis) flagMayWrite(f *ssa.Function, site ssa.Instruction, v ssa.Value) (forwarder bool, bad string) {
	switch x := v.(type) {
	case *ssa.Const:
		n, ok := constInt(x)
		if !ok {
			return false, "non-integer flag"
		}
		if n&ra.writeMsk != 0 {
			return false, fmt.Sprintf("flag %#x contains write/create bits", n)
		}
		return false, ""
	case *ssa.Parameter:
		return true, ""
	case *ssa.Phi:
		for k, e := range x.Edges {
			fw, b := ra.flagMayWrite(f, site, e)
			if fw {
				return false, "flag is a φ of a parameter"
			}
			if b == "" {
				continue
			}
			// the edge carries write flags: fine if the incoming block is RO-guarded
			pred := x.Block().Preds[k]
			if len(pred.Instrs) > 0 && ra.locallyGuarded(f, pred.Instrs[0]) {
				continue
			}
			// or the edge itself is the ReadOnly == false edge of the predecessor's branch
			if iff, ok := pred.Instrs[len(pred.Instrs)-1].(*ssa.If); ok {
				edgeOK := false
				for si, succ := range pred.Succs {
					if succ == x.Block() && flagEdge(ra.fRO, false)(pred, succ, iff.Cond, si == 0) {
						edgeOK = true
					}
				}
				// both successors may be the φ block only in degenerate code; require the other one not to be
				if edgeOK && !(pred.Succs[0] == x.Block() && pred.Succs[1] == x.Block()) {
					continue
				}
			}
			return false, b + " on an edge that is not guarded by ReadOnly == false"
		}
		return false, ""
	case *ssa.Extract, *ssa.Call:
		// the flag comes out of a moss helper (`flag, perm := openFlagAndPerm(opts.ReadOnly)`): every return of the
		// helper whose flag carries write bits must be unreachable when one of its bool parameters is true, and the
		// call site must pass ReadOnly (a load of the field) for that parameter
		var call *ssa.Call
		idx := 0
		if e, isE := x.(*ssa.Extract); isE {
			call, _ = e.Tuple.(*ssa.Call)
			idx = e.Index
		} else {
			call, _ = x.(*ssa.Call)
		}
		if call == nil {
			return false, "flag operand is " + accessPath(v)
		}
		h := call.Call.StaticCallee()
		if h == nil || h.Pkg != ra.c.Moss || h.Blocks == nil {
			return false, "flag is the result of " + calleeName(call)
		}
		bad := ""
		eachInstr(h, func(i ssa.Instruction) {
			r, isR := i.(*ssa.Return)
			if !isR || bad != "" || idx >= len(r.Results) {
				return
			}
			for _, og := range origins(r.Results[idx]) {
				n, isK := constInt(og)
				if !isK {
					bad = "flag computed in " + h.Name() + " is not a constant"
					return
				}
				if n&ra.writeMsk == 0 {
					continue
				}
				// write bits: only when a ReadOnly-bound parameter is false
				guarded := false
				for pi, p := range h.Params {
					if bt, isB := p.Type().Underlying().(*types.Basic); !isB || bt.Kind() != types.Bool {
						continue
					}
					if pi >= len(call.Call.Args) {
						continue
					}
					if fv, _ := loadedField(call.Call.Args[pi]); fv != ra.fRO {
						continue
					}
					pp := p
					if mustPrecede(h, r, func(ssa.Instruction) bool { return false }, func(from, to *ssa.BasicBlock, cond ssa.Value, onTrue bool) bool {
						neg := false
						for {
							u, ok := cond.(*ssa.UnOp)
							if !ok || u.Op != token.NOT {
								break
							}
							neg = !neg
							cond = u.X
						}
						if cond != ssa.Value(pp) {
							return false
						}
						val := onTrue
						if neg {
							val = !val
						}
						return !val // the parameter == false edge
					}) {
						guarded = true
					}
				}
				if !guarded {
					bad = fmt.Sprintf("flag %#x with write/create bits is returned by %s on a path that is not tied to ReadOnly == false", n, h.Name())
				}
			}
		})
		return false, bad
	case *ssa.BinOp:
		// OR of constants is folded by the compiler front end; anything else is unknown
		return false, "flag is computed (" + accessPath(v) + ")"
	}
	return false, "flag operand is " + accessPath(v)
}

func ruleRO(c *Ctx) []*Ob {
	o := newObs(c, "R-RO")
	ra := &roAnalysis{c: c, fRO: c.Field("CollectionOptions", "ReadOnly"), memo: map[*ssa.Function]int{}}
	for _, n := range []string{"O_WRONLY", "O_RDWR", "O_APPEND", "O_CREATE", "O_TRUNC"} {
		ra.writeMsk |= osConst(c, n)
	}
	openFileT := c.Named("OpenFile")
	// writes through an open handle are judged by a second instance of the reachability analysis with two kinds of API
	// roots that are not entry points "of a ReadOnly store": (1) exported functions that are handed the File by the
	// application (Segment.Persist(file, ...)): the handle is the application's, not one the store opened; (2) the
	// explicit mutation request Store.SnapshotRevert: on a ReadOnly store its footer write is refused by the kernel
	// (O_RDONLY descriptor) and reported as an error - the right outcome for a mutation request; nothing else runs
	// before it that could touch the directory (DUR-2 orders Sync, WriteAt, Sync)
	fileT := c.Named("File")
	rh := &roAnalysis{c: c, fRO: ra.fRO, memo: map[*ssa.Function]int{}, writeMsk: ra.writeMsk}
	rh.okRoot = func(f *ssa.Function) bool {
		if c.fname(f) == "(*Store).SnapshotRevert" {
			return true
		}
		ps := f.Signature.Params()
		for k := 0; k < ps.Len(); k++ {
			if types.Identical(ps.At(k).Type(), fileT) {
				return true
			}
		}
		return false
	}
	for _, f := range c.Funcs {
		fn := c.fname(f)
		if strings.HasSuffix(c.Fset.Position(f.Pos()).Filename, "smat.go") {
			continue
		}
		eachInstr(f, func(i ssa.Instruction) {
			ci, ok := i.(ssa.CallInstruction)
			if !ok {
				return
			}
			cc := ci.Common()
			construct := ""
			var flag ssa.Value
			if sf := cc.StaticCallee(); sf != nil && sf.Pkg != nil && sf.Signature.Recv() == nil {
				switch sf.Pkg.Pkg.Path() {
				case "os":
					if osMutators[sf.Name()] {
						construct = "call os." + sf.Name()
					} else if sf.Name() == "OpenFile" && len(cc.Args) >= 2 {
						construct = "call os.OpenFile"
						flag = cc.Args[1]
					}
				case "io/ioutil":
					if ioutilMutators[sf.Name()] {
						construct = "call ioutil." + sf.Name()
					}
				}
			} else if cc.IsInvoke() && (cc.Method.Name() == "Truncate" || cc.Method.Name() == "WriteAt") {
				// a write through an open handle: with the default opener the kernel refuses it on an O_RDONLY
				// descriptor - and the operation that tried it fails, which is not "serves exactly the persisted
				// content" either; with an application-supplied File nothing refuses it
				construct = "invoke " + typeName(cc.Value.Type()) + "." + cc.Method.Name()
				g, chain := rh.siteGuarded(f, i)
				ob := o.add(fn, construct, c.instrPos(i), g, "a write through an open handle is reachable only behind a ReadOnly == false guard (or from a mutation request that a ReadOnly handle refuses)")
				if !g {
					ob.Why = "a ReadOnly store can reach this write through an open handle on a path that is not an explicit mutation request: " + strings.Join(chain, " -> ") +
						" (with the default opener the kernel refuses it and the operation fails - the store then does not serve its content; with an application-supplied File nothing refuses it)"
					ob.Path = chain
				}
				return
			} else if !cc.IsInvoke() && cc.StaticCallee() == nil {
				if types.Identical(cc.Value.Type(), openFileT) && len(cc.Args) >= 2 {
					construct = "call OpenFile value " + accessPath(cc.Value)
					flag = cc.Args[1]
				}
			}
			if construct == "" {
				return
			}
			if flag != nil {
				fw, bad := ra.flagMayWrite(f, i, flag)
				if fw {
					o.trivial(fn, construct+" (forwarder)", c.instrPos(i), "the flag operand is this function's own parameter: its callers carry the obligation")
					return
				}
				if bad == "" {
					o.add(fn, construct, c.instrPos(i), true, "flag operand carries write/create bits only on edges guarded by ReadOnly == false")
					return
				}
				g, chain := ra.siteGuarded(f, i)
				ob := o.add(fn, construct, c.instrPos(i), g, "site is ReadOnly-guarded from every API root")
				if !g {
					ob.Why = bad + "; unguarded entry: " + strings.Join(chain, " -> ")
					ob.Path = chain
				}
				return
			}
			g, chain := ra.siteGuarded(f, i)
			ob := o.add(fn, construct, c.instrPos(i), g, "reachable only behind a ReadOnly == false guard, from every API root")
			if !g {
				ob.Why = "a ReadOnly store can reach this directory mutation: " + strings.Join(chain, " -> ")
				ob.Path = chain
			}
		})
	}
	return o.list
}
