package main

// SCAN-5: what is subtracted from a length read from the file was first shown to fit into it (C05).

import (
	"fmt"
	"go/token"
	"sort"
	"strings"

	"golang.org/x/tools/go/ssa"
)

func init() {
	register(&Rule{
		ID: "SCAN-5",
		Doc: "A length read from a candidate's bytes is trusted only as far as it was checked: in every function that decodes a length from the file (the address of a local is handed to a " +
			"decoder), each expression `length - A - B ...` is dominated by the edge of a comparison that establishes `length >= X` (or >) where the additive terms of X include every " +
			"term A, B, ... subtracted (terms compared symbolically: package-level sizes, constants, locals). A guard that covers only part of what is subtracted lets a torn or foreign " +
			"candidate make the difference negative: a slice bound out of range or a huge allocation panics the open instead of skipping the candidate. The arithmetic inside the terms " +
			"is not evaluated.",
		Props: []string{"C05", "C19"},
		Floor: 2,
		Run:   ruleScan5,
	})
}

func ruleScan5(c *Ctx) []*Ob {
	o := newObs(c, "SCAN-5")
	// the cell a value is a (converted) load of, when that cell is filled by a decoder
	cellOf := func(v ssa.Value) *ssa.Alloc {
		for {
			switch x := v.(type) {
			case *ssa.Convert:
				v = x.X
				continue
			case *ssa.ChangeType:
				v = x.X
				continue
			case *ssa.UnOp:
				if x.Op == token.MUL {
					if a, ok := x.X.(*ssa.Alloc); ok && addrPassedToCall(a) {
						return a
					}
				}
			}
			return nil
		}
	}
	termKey := func(v ssa.Value) string {
		for {
			switch x := v.(type) {
			case *ssa.Convert:
				v = x.X
				continue
			case *ssa.ChangeType:
				v = x.X
				continue
			}
			break
		}
		if k, ok := constInt(v); ok {
			return fmt.Sprintf("const %d", k)
		}
		if ld, ok := v.(*ssa.UnOp); ok && ld.Op == token.MUL {
			if g, isG := ld.X.(*ssa.Global); isG {
				return g.Name()
			}
		}
		if cst, ok := v.(*ssa.Const); ok {
			return "const " + cst.Value.String()
		}
		return "value " + v.Name()
	}
	// additive terms of a sum
	var sumTerms func(v ssa.Value, out map[string]bool)
	sumTerms = func(v ssa.Value, out map[string]bool) {
		w := v
		for {
			switch x := w.(type) {
			case *ssa.Convert:
				w = x.X
				continue
			case *ssa.ChangeType:
				w = x.X
				continue
			}
			break
		}
		if b, ok := w.(*ssa.BinOp); ok && b.Op == token.ADD {
			sumTerms(b.X, out)
			sumTerms(b.Y, out)
			return
		}
		out[termKey(w)] = true
	}
	// length - A - B ...: the cell and the subtracted terms
	var diff func(v ssa.Value, out map[string]bool) *ssa.Alloc
	diff = func(v ssa.Value, out map[string]bool) *ssa.Alloc {
		w := v
		for {
			switch x := w.(type) {
			case *ssa.Convert:
				w = x.X
				continue
			case *ssa.ChangeType:
				w = x.X
				continue
			}
			break
		}
		if a := cellOf(w); a != nil {
			return a
		}
		if b, ok := w.(*ssa.BinOp); ok && b.Op == token.SUB {
			if a := diff(b.X, out); a != nil {
				sumTerms(b.Y, out)
				return a
			}
		}
		return nil
	}
	keys := func(m map[string]bool) string {
		var l []string
		for k := range m {
			l = append(l, k)
		}
		sort.Strings(l)
		return strings.Join(l, " + ")
	}
	for _, f := range c.Funcs {
		if c.isHarness(f) {
			continue
		}
		fn := c.fname(f)
		// the outermost subtraction chains only
		inner := map[ssa.Value]bool{}
		eachInstr(f, func(i ssa.Instruction) {
			if b, ok := i.(*ssa.BinOp); ok && b.Op == token.SUB {
				w := b.X
				for {
					if cv, isC := w.(*ssa.Convert); isC {
						w = cv.X
						continue
					}
					break
				}
				if ib, isB := w.(*ssa.BinOp); isB && ib.Op == token.SUB {
					inner[ib] = true
				}
			}
		})
		eachInstr(f, func(i ssa.Instruction) {
			b, ok := i.(*ssa.BinOp)
			if !ok || b.Op != token.SUB || inner[b] {
				return
			}
			need := map[string]bool{}
			cell := diff(b, need)
			if cell == nil || len(need) == 0 {
				return
			}
			// a dominating comparison edge that establishes cell >= X with X's terms covering need
			covered := false
			best := ""
			for _, d := range f.Blocks {
				iff, isIf := d.Instrs[len(d.Instrs)-1].(*ssa.If)
				if !isIf {
					continue
				}
				cmp, isCmp := iff.Cond.(*ssa.BinOp)
				if !isCmp {
					continue
				}
				op := cmp.Op
				var other ssa.Value
				if cellOf(cmp.X) == cell {
					other = cmp.Y
				} else if cellOf(cmp.Y) == cell {
					other = cmp.X
					op = flipCmp(op)
				} else {
					continue
				}
				// cell OP other: the edge on which cell >= other (or >) holds
				var edge *ssa.BasicBlock
				switch op {
				case token.GEQ, token.GTR:
					edge = d.Succs[0]
				case token.LSS, token.LEQ:
					edge = d.Succs[1]
				default:
					continue
				}
				if !(edge.Dominates(b.Block()) && len(edge.Preds) == 1) {
					continue
				}
				have := map[string]bool{}
				sumTerms(other, have)
				all := true
				for k := range need {
					if !have[k] {
						all = false
					}
				}
				if best == "" {
					best = keys(have)
				}
				if all {
					covered = true
					best = keys(have)
				}
			}
			construct := fmt.Sprintf("%s - (%s) is covered by a lower-bound test", cell.Comment, keys(need))
			if covered {
				o.add(fn, construct, c.instrPos(i), true, "dominated by the edge of a comparison establishing "+cell.Comment+" >= "+best)
			} else {
				why := "no dominating comparison establishes a lower bound of " + cell.Comment + " that includes every subtracted term"
				if best != "" {
					why += " (the nearest guard only covers " + best + ")"
				}
				o.add(fn, construct, c.instrPos(i), false,
					why+": for a torn or foreign candidate the difference is negative - a slice bound out of range or an absurd allocation panics the open instead of skipping the candidate")
			}
		})
	}
	return o.list
}
