package main

// R-TOMB, TOMB-2, MRG-1, MRG-3, ENC-5: the read path (C10, C08, C19, C01, C04).

import (
	"fmt"
	"go/token"
	"go/types"

	"golang.org/x/tools/go/ssa"
)

func init() {
	register(&Rule{
		ID: "R-TOMB",
		Doc: "A tombstone ends a chained lookup. A lookup function conflates when it returns (nil, nil) both under an `op == OperationDel` test (deleted) and for 'not found' " +
			"(segmentStack.get, hence segmentStack.Get and everything that returns its result). A call of a further lookup on another (older) source that is control-dependent on the nil result " +
			"of a conflating lookup is a violation: a tombstone or a Merge resolved against the newer section alone lets the older value resurface.",
		Props: []string{"C10", "C08", "C01"},
		Floor: 1,
		Run:   ruleTomb,
	})
	register(&Rule{
		ID: "TOMB-2",
		Doc: "Copy-out: in Footer.Get, on every path with NoCopyValue == false, a non-nil value and a nil error, the slice returned is not the slice obtained from the mmap-backed stack " +
			"(it is rebuilt by append on a fresh allocation), so it stays valid after the snapshot, collection and store are closed.",
		Props: []string{"C10"},
		Floor: 1,
		Run:   ruleTomb2,
	})
	register(&Rule{
		ID: "MRG-1",
		Doc: "Nothing non-idempotent is cached above its own persisted copy: when runPersister stores the stack it handed to LowerLevelUpdate into stackClean (CachePersisted), every " +
			"dest.Mutate(op, …) in segmentStack.mergeInto (the producer of that stack) must be unable to pass a raw OperationMerge: every path from the raw cursor operation to the call passes " +
			"the `op != OperationMerge` edge or rewrites op. The optimizeTail loop and the main loop are sibling paths of one function and must agree.",
		Props: []string{"C08", "C19"},
		Floor: 1,
		Run:   ruleMrg1,
	})
	register(&Rule{
		ID: "MRG-3",
		Doc: "Exhaustiveness: every function that hands a value to a reader and branches on OperationDel (segmentStack.get, iterator.Current, iteratorSingle.Current) also has an " +
			"OperationMerge branch that reaches the configured MergeOperator's FullMerge.",
		Props: []string{"C08"},
		Floor: 1,
		Run:   ruleMrg3,
	})
	register(&Rule{
		ID: "ENC-5",
		Doc: "Presence encoding: readers decide 'found' by val != nil and getOperationKeyVal produces val by slicing segment.buf, so every constructor of a segment " +
			"(newSegment, newBatch, loadBasicSegment) must initialise buf with a value that is non-nil on every path; a zero-length slice of a nil buf is nil and makes an empty value or a " +
			"tombstone of the empty key invisible.",
		Props: []string{"C19", "C01", "C04"},
		Floor: 1,
		Run:   ruleEnc5,
	})
}

func constUint64Named(c *Ctx, v ssa.Value, name string) bool {
	k, ok := v.(*ssa.Const)
	if !ok || k.Value == nil {
		return false
	}
	want := c.Const(name)
	return k.Value.ExactString() == want.Val().ExactString()
}

// isOpTest: cond is `x == <OperationXxx>` (or !=); returns x, and whether the true edge means equal.
func isOpTest(c *Ctx, cond ssa.Value, opName string) (ssa.Value, bool, bool) {
	b, ok := cond.(*ssa.BinOp)
	if !ok || (b.Op != token.EQL && b.Op != token.NEQ) {
		return nil, false, false
	}
	switch {
	case constUint64Named(c, b.Y, opName):
		return b.X, b.Op == token.EQL, true
	case constUint64Named(c, b.X, opName):
		return b.Y, b.Op == token.EQL, true
	}
	return nil, false, false
}

// conflatingLookups: functions returning (nil, nil) both under an
// OperationDel test and elsewhere, closed under "returns the result of".
func conflatingLookups(c *Ctx) map[*ssa.Function]bool {
	conf := map[*ssa.Function]bool{}
	for _, f := range c.Funcs {
		if f.Signature.Results().Len() != 2 || !isErrorType(f.Signature.Results().At(1).Type()) {
			continue
		}
		// blocks dominated by the equal-edge of an OperationDel test
		var delHeads []*ssa.BasicBlock
		for _, b := range f.Blocks {
			iff, ok := b.Instrs[len(b.Instrs)-1].(*ssa.If)
			if !ok {
				continue
			}
			if _, eqOnTrue, ok := isOpTest(c, iff.Cond, "OperationDel"); ok {
				if eqOnTrue {
					delHeads = append(delHeads, b.Succs[0])
				} else {
					delHeads = append(delHeads, b.Succs[1])
				}
			}
		}
		if len(delHeads) == 0 {
			continue
		}
		tomb, notFound := false, false
		eachInstr(f, func(i ssa.Instruction) {
			r, ok := i.(*ssa.Return)
			if !ok || !returnsNil(r.Results[0]) || !returnsNil(r.Results[1]) {
				return
			}
			under := false
			for _, h := range delHeads {
				if len(h.Preds) == 1 && h.Dominates(r.Block()) {
					under = true
				}
			}
			if under {
				tomb = true
			} else {
				notFound = true
			}
		})
		if tomb && notFound {
			conf[f] = true
		}
	}
	// closure under "every value return is a call of a conflating function"
	for changed := true; changed; {
		changed = false
		for _, f := range c.Funcs {
			if conf[f] || f.Signature.Results().Len() != 2 {
				continue
			}
			passes := false
			eachInstr(f, func(i ssa.Instruction) {
				r, ok := i.(*ssa.Return)
				if !ok {
					return
				}
				for _, og := range origins(r.Results[0]) {
					if call := originCall(og); call != nil {
						for _, cal := range c.Callees(call) {
							if conf[cal] {
								passes = true
							}
						}
					}
				}
			})
			if passes {
				conf[f] = true
				changed = true
			}
		}
	}
	return conf
}

// isLookupCall: a call of a method named Get with signature (key, ReadOptions) ([]byte, error).
func isLookupCall(ci ssa.CallInstruction) bool {
	cc := ci.Common()
	sig := cc.Signature()
	if sig.Params().Len() != 2 || sig.Results().Len() != 2 {
		return false
	}
	if typeName(sig.Params().At(1).Type()) != "ReadOptions" {
		return false
	}
	if cc.IsInvoke() {
		return cc.Method.Name() == "Get"
	}
	if f := cc.StaticCallee(); f != nil {
		return f.Name() == "Get"
	}
	return false
}

func lookupRecv(ci ssa.CallInstruction) ssa.Value {
	cc := ci.Common()
	if cc.IsInvoke() {
		return cc.Value
	}
	if len(cc.Args) > 0 {
		return cc.Args[0]
	}
	return nil
}

func ruleTomb(c *Ctx) []*Ob {
	o := newObs(c, "R-TOMB")
	conf := conflatingLookups(c)
	if !conf[c.Fn("(*segmentStack).get")] {
		// the summary itself is an anchor: today get() conflates
		o.add("(*segmentStack).get", "lookup summary", c.pos(c.Fn("(*segmentStack).get").Pos()), true,
			"segmentStack.get no longer conflates 'deleted' with 'not found'")
	} else {
		o.trivial("(*segmentStack).get", "lookup summary", c.pos(c.Fn("(*segmentStack).get").Pos()),
			"conflating: returns (nil, nil) for a tombstone and for a miss")
	}
	for _, f := range c.Funcs {
		fn := c.fname(f)
		// conflating calls in f
		var k1s []*ssa.Call
		eachInstr(f, func(i ssa.Instruction) {
			call, ok := i.(*ssa.Call)
			if !ok || !isLookupCall(call) {
				return
			}
			for _, cal := range c.Callees(call) {
				if conf[cal] {
					k1s = append(k1s, call)
					return
				}
			}
		})
		if len(k1s) == 0 {
			continue
		}
		reported := map[*ssa.Call]bool{}
		for _, k1 := range k1s {
			// phase 1: the edges on which k1's value result was tested and found nil
			var nilTargets []*ssa.BasicBlock
			seenT := map[*ssa.BasicBlock]bool{}
			walk(after(k1), walkOpts{origin: k1, originIdx: 0, noInline: true,
				visit: func(i ssa.Instruction, t *tracker) bool { return i == ssa.Instruction(k1) },
				edge: func(from, to *ssa.BasicBlock, label string, cond ssa.Value, onTrue bool, t *tracker) bool {
					if label == "nil" && !seenT[to] {
						seenT[to] = true
						nilTargets = append(nilTargets, to)
					}
					return label != "" // stop at the test: phase 2 continues from the nil edge
				}})
			// phase 2: lookups on another source reachable after such an edge
			for _, nt := range nilTargets {
				walk(point{nt, 0}, walkOpts{noInline: true, visit: func(i ssa.Instruction, t *tracker) bool {
					if i == ssa.Instruction(k1) {
						return true
					}
					k2, ok := i.(*ssa.Call)
					if !ok || !isLookupCall(k2) || reported[k2] {
						return false
					}
					r1, r2 := lookupRecv(k1), lookupRecv(k2)
					if r1 != nil && r2 != nil && sameValue(r1, r2) {
						return false
					}
					reported[k2] = true
					o.add(fn, fmt.Sprintf("chained lookup %s.Get after a nil result", accessPath(r2)), c.instrPos(k2), false,
						fmt.Sprintf("%s.Get is consulted when %s.Get returned nil, but that nil may be a tombstone (or a Merge resolved without the older sections): a deleted key resurfaces, unlike on the snapshot path",
							accessPath(r2), accessPath(r1)))
					return false
				}})
			}
		}
	}
	return o.list
}

func ruleTomb2(c *Ctx) []*Ob {
	o := newObs(c, "TOMB-2")
	f := c.Fn("(*Footer).Get")
	fn := c.fname(f)
	fNoCopy := c.Field("ReadOptions", "NoCopyValue")
	noCopyTrue := flagEdge(fNoCopy, true)
	n := 0
	eachInstr(f, func(i ssa.Instruction) {
		k, ok := i.(*ssa.Call)
		if !ok || !isLookupCall(k) {
			return
		}
		n++
		var val, errv ssa.Value
		if refs := k.Referrers(); refs != nil {
			for _, r := range *refs {
				if e, ok := r.(*ssa.Extract); ok {
					if e.Index == 0 {
						val = e
					} else {
						errv = e
					}
				}
			}
		}
		if val == nil {
			return
		}
		bad := ""
		walk(after(k), walkOpts{seed: []ssa.Value{}, noInline: true,
			origin: k, originIdx: 0,
			visit: func(j ssa.Instruction, t *tracker) bool {
				if r, ok := j.(*ssa.Return); ok {
					if t.vals[r.Results[0]] {
						bad = c.instrPos(r)
					}
					return true
				}
				return false
			},
			edge: func(from, to *ssa.BasicBlock, label string, cond ssa.Value, onTrue bool, t *tracker) bool {
				if label == "nil" {
					return true // rv == nil: nothing to copy
				}
				if noCopyTrue(from, to, cond, onTrue) {
					return true
				}
				// err != nil edge
				if b, ok := cond.(*ssa.BinOp); ok && (b.Op == token.EQL || b.Op == token.NEQ) && isNilConst(b.Y) && errv != nil && sameValue(b.X, errv) {
					errNonNilOnTrue := b.Op == token.NEQ
					if errNonNilOnTrue == onTrue {
						return true
					}
				}
				return false
			}})
		ok2 := bad == ""
		why := "with NoCopyValue == false the raw mmap-backed slice never reaches the return: it is copied"
		if !ok2 {
			why = "the slice obtained from the mmap-backed stack reaches the return at " + bad + " although NoCopyValue is false: the caller's value dies with the mapping"
		}
		o.add(fn, "copy-out of the Get result", c.instrPos(k), ok2, why)
	})
	if n == 0 {
		o.add(fn, "copy-out of the Get result", c.pos(f.Pos()), false, "anchor lost: Footer.Get no longer delegates to its stack's Get")
	}
	// nobody on the read path switches the caller's options to NoCopyValue
	nov := 0
	for _, g := range c.Funcs {
		eachInstr(g, func(i ssa.Instruction) {
			st, ok := i.(*ssa.Store)
			if !ok {
				return
			}
			fv, base := asFieldAddr(st.Addr)
			if fv != fNoCopy {
				return
			}
			a, isA := base.(*ssa.Alloc)
			if !isA {
				return
			}
			// does the struct come from a parameter (the caller's options)?
			fromParam := false
			if refs := a.Referrers(); refs != nil {
				for _, r := range *refs {
					if ws, isW := r.(*ssa.Store); isW && ws.Addr == ssa.Value(a) {
						for _, og := range origins(ws.Val) {
							if _, isP := og.(*ssa.Parameter); isP {
								fromParam = true
							}
						}
					}
				}
			}
			if !fromParam {
				return
			}
			if v, isC := constBool(st.Val); isC && !v {
				return
			}
			nov++
			o.add(c.fname(g), "caller's ReadOptions.NoCopyValue overwritten", c.instrPos(st), false,
				"the caller's read options are changed to NoCopyValue before being handed to a lower lookup: a copying Get can then return a slice of the mmap'ed file, which dies with the snapshot")
		})
	}
	if nov == 0 {
		o.trivial("read path", "caller's ReadOptions.NoCopyValue never overwritten", c.pos(f.Pos()), "no function switches options received from its caller to NoCopyValue")
	}
	return o.list
}

func ruleMrg1(c *Ctx) []*Ob {
	o := newObs(c, "MRG-1")
	fBase := c.Field("collection", "stackDirtyBase")
	fClean := c.Field("collection", "stackClean")
	rp := c.Fn("(*collection).runPersister")
	caches := false
	var cachePos ssa.Instruction
	for _, a := range fieldAccesses(rp, func(v *types.Var) bool { return v == fClean }) {
		if a.Kind != "store" {
			continue
		}
		for _, og := range origins(a.Val) {
			if fv, _ := loadedField(og); fv == fBase {
				caches = true
				cachePos = a.Instr
			}
		}
	}
	if !caches {
		o.trivial(c.fname(rp), "stackClean = stackDirtyBase", c.pos(rp.Pos()), "the persisted stack is not cached above its own persisted copy: nothing to require of its producers")
		return o.list
	}
	// The cache store may be guarded instead: it executes only behind the false edge of a predicate on the very stack being
	// cached that reports unresolved merge operations (segment.totOperationMerge) for the stack and, recursively, its children.
	guardWhy := ""
	if cachePos != nil {
		guardWhy = mergeFreeGuard(c, rp, cachePos, fBase)
	}
	if guardWhy != "" {
		o.add(c.fname(rp), "stackClean = stackDirtyBase", c.instrPos(cachePos), true, "the persisted stack is cached above its own persisted copy only "+guardWhy+
			": an unresolved merge operand is never layered above the lower level that already contains it")
	} else {
		o.trivial(c.fname(rp), "stackClean = stackDirtyBase", c.instrPos(cachePos), "CachePersisted keeps the persisted stack above the lower level that now contains it: producers must have resolved every Merge")
	}
	cacheGuarded := guardWhy != ""
	mi := c.Fn("(*segmentStack).mergeInto")
	fn := c.fname(mi)
	// raw operation sources
	var seeds []ssa.Value
	eachInstr(mi, func(i ssa.Instruction) {
		switch x := i.(type) {
		case *ssa.Extract:
			if call, ok := x.Tuple.(*ssa.Call); ok && x.Index == 0 && call.Call.IsInvoke() && call.Call.Method.Name() == "Current" {
				seeds = append(seeds, x)
			}
		case *ssa.Field:
			if fv := fieldVar(x); fv != nil && fv.Name() == "Operation" {
				seeds = append(seeds, x)
			}
		case *ssa.UnOp:
			if fv, _ := loadedField(x); fv != nil && fv.Name() == "Operation" {
				seeds = append(seeds, x)
			}
		}
	})
	var muts []*ssa.Call
	eachInstr(mi, func(i ssa.Instruction) {
		if call, ok := i.(*ssa.Call); ok && call.Call.IsInvoke() && call.Call.Method.Name() == "Mutate" {
			muts = append(muts, call)
		}
	})
	if len(seeds) == 0 || len(muts) == 0 {
		o.add(fn, "dest.Mutate(op)", c.pos(mi.Pos()), false, "anchor lost: mergeInto's operation sources or Mutate calls")
		return o.list
	}
	// the resolution itself sees the whole chain: ss.get(key, top, base, options) with the lower level not skipped
	fSkipLL := c.Field("ReadOptions", "SkipLowerLevel")
	ssget := c.Fn("(*segmentStack).get")
	baseP := paramNamed(mi, "base")
	for _, k := range callsToFn(mi, ssget) {
		okBase := baseP != nil && len(k.Call.Args) >= 5 && sameValue(k.Call.Args[3], baseP)
		skips := false
		if len(k.Call.Args) >= 5 {
			if ld, isLd := k.Call.Args[4].(*ssa.UnOp); isLd && ld.Op == token.MUL {
				if a, isA := ld.X.(*ssa.Alloc); isA {
					if refs := a.Referrers(); refs != nil {
						for _, r := range *refs {
							if fa, ok := r.(*ssa.FieldAddr); ok && fieldAddrVar(fa) == fSkipLL {
								if rr := fa.Referrers(); rr != nil {
									for _, u := range *rr {
										if st, ok := u.(*ssa.Store); ok && st.Addr == ssa.Value(fa) {
											if v, isC := constBool(st.Val); !isC || v {
												skips = true
											}
										}
									}
								}
							}
						}
					}
				}
			} else if _, isConst := k.Call.Args[4].(*ssa.Const); !isConst {
				skips = true // options of unknown origin
			}
		}
		ok := okBase && !skips
		why := "the Merge is resolved over the whole chain: own segments, the base passed in, and the lower level"
		if !okBase {
			why = "the Merge is resolved without the base handed to mergeInto: operands in the stack being persisted are lost"
		} else if skips {
			why = "the Merge is resolved with SkipLowerLevel set: the fold starts from nil instead of the value already in the lower level, and the result is written back as an absolute Set"
		}
		o.add(fn, "Merge resolved over the full chain", c.instrPos(k), ok, why)
	}
	for _, m := range muts {
		rawReaches := false
		for _, sd := range seeds {
			si, ok := sd.(ssa.Instruction)
			if !ok {
				continue
			}
			walk(after(si), walkOpts{seed: []ssa.Value{sd},
				visit: func(j ssa.Instruction, t *tracker) bool {
					if j == ssa.Instruction(m) {
						if t.vals[m.Call.Args[0]] {
							rawReaches = true
						}
						return true
					}
					return j == si
				},
				edge: func(from, to *ssa.BasicBlock, label string, cond ssa.Value, onTrue bool, t *tracker) bool {
					x, eqOnTrue, ok := isOpTest(c, cond, "OperationMerge")
					if !ok || !t.vals[x] {
						return false
					}
					return eqOnTrue != onTrue // the "op != OperationMerge" edge is what we require: prune it
				}})
		}
		ok := !rawReaches
		why := "the operation passed was tested against OperationMerge (or rewritten to Set/Del) on every path"
		if !ok && cacheGuarded {
			ok = true
			why = "a raw cursor operation can reach dest.Mutate (the tail optimisation copies entries unresolved), which is harmless because runPersister caches the persisted stack only when it holds no merge operations"
		}
		if !ok {
			why = "a raw cursor operation reaches dest.Mutate without having been tested against OperationMerge: an unresolved merge operand is copied into the merged segment, " +
				"and once that stack is persisted and kept in stackClean (CachePersisted) the operand is folded a second time over the lower level that already contains it"
		}
		kind := "raw cursor op"
		for _, og := range origins(m.Call.Args[0]) {
			if _, isC := og.(*ssa.Const); isC {
				kind = "op rewritten after the Merge test"
			}
		}
		o.add(fn, "dest.Mutate("+kind+")", c.instrPos(m), ok, why)
	}
	return o.list
}

func ruleMrg3(c *Ctx) []*Ob {
	o := newObs(c, "MRG-3")
	getMerged := c.Fn("(*segmentStack).getMerged")
	var fnReaches func(g *ssa.Function, d int) bool
	var reachesFullMergeD func(i ssa.Instruction, d int) bool
	reachesFullMergeD = func(i ssa.Instruction, d int) bool {
		ci, ok := i.(ssa.CallInstruction)
		if !ok {
			return false
		}
		if ci.Common().IsInvoke() && ci.Common().Method.Name() == "FullMerge" {
			return true
		}
		g := ci.Common().StaticCallee()
		if g == getMerged {
			return true
		}
		// a helper that the merge handling was moved into
		return g != nil && g.Pkg == c.Moss && d < 3 && fnReaches(g, d+1)
	}
	fnReaches = func(g *ssa.Function, d int) bool {
		found := false
		eachInstr(g, func(j ssa.Instruction) {
			if !found && reachesFullMergeD(j, d) {
				found = true
			}
		})
		return found
	}
	reachesFullMerge := func(i ssa.Instruction) bool { return reachesFullMergeD(i, 0) }
	// getMerged itself must call FullMerge
	hasFM := false
	eachInstr(getMerged, func(i ssa.Instruction) {
		if ci, ok := i.(ssa.CallInstruction); ok && ci.Common().IsInvoke() && ci.Common().Method.Name() == "FullMerge" {
			hasFM = true
		}
	})
	for _, fn := range []string{"(*segmentStack).get", "(*iterator).Current", "(*iteratorSingle).Current"} {
		f := c.Fn(fn)
		hasDel := false
		var mergeHeads []*ssa.BasicBlock
		for _, b := range f.Blocks {
			iff, ok := b.Instrs[len(b.Instrs)-1].(*ssa.If)
			if !ok {
				continue
			}
			if _, _, ok := isOpTest(c, iff.Cond, "OperationDel"); ok {
				hasDel = true
			}
			if _, eqOnTrue, ok := isOpTest(c, iff.Cond, "OperationMerge"); ok {
				if eqOnTrue {
					mergeHeads = append(mergeHeads, b.Succs[0])
				} else {
					mergeHeads = append(mergeHeads, b.Succs[1])
				}
			}
		}
		if !hasDel {
			o.trivial(fn, "OperationMerge branch", c.pos(f.Pos()), "the function no longer branches on OperationDel: nothing required")
			continue
		}
		ok := false
		eachInstr(f, func(i ssa.Instruction) {
			if !reachesFullMerge(i) {
				return
			}
			for _, h := range mergeHeads {
				if h.Dominates(i.Block()) {
					ok = true
				}
			}
		})
		if fn != "(*iteratorSingle).Current" && !hasFM {
			ok = false
		}
		why := "an `op == OperationMerge` branch leads to the MergeOperator's FullMerge"
		if !ok {
			why = "the function distinguishes deletions but has no OperationMerge branch reaching FullMerge: a merge operand would be handed to the reader as if it were the value"
		}
		o.add(fn, "OperationMerge branch", c.pos(f.Pos()), ok, why)
	}
	return o.list
}

func ruleEnc5(c *Ctx) []*Ob {
	o := newObs(c, "ENC-5")
	// presence is carried by operations, not by bytes: persistSegments may skip a segment of the incoming
	// stack only when it has no operations (Len() <= 0) - a segment that only sets or deletes the empty key has
	// operations but no key/value bytes
	ps := c.Fn("(*Store).persistSegments")
	persistSeg := c.Fn("(*Store).persistSegment")
	fAfield := c.Field("segmentStack", "a")
	var loop map[*ssa.BasicBlock]bool
	var head *ssa.BasicBlock
	for _, k := range callsToFn(ps, persistSeg) {
		if scc := sccOf(ps, k.Block()); scc != nil {
			loop = scc
		}
	}
	if loop == nil {
		o.add(c.fname(ps), "segments skipped only when Len() <= 0", c.pos(ps.Pos()), false, "anchor lost: persistSegments no longer persists the stack's segments in a loop")
	} else {
		for b := range loopHeaders(loop) {
			head = b
		}
		lenEdge := func(from, to *ssa.BasicBlock, cond ssa.Value, onTrue bool) bool {
			b, ok := cond.(*ssa.BinOp)
			if !ok {
				return false
			}
			call, ok := b.X.(*ssa.Call)
			if !ok || !call.Call.IsInvoke() || call.Call.Method.Name() != "Len" {
				return false
			}
			n, isInt := constInt(b.Y)
			if !isInt {
				return false
			}
			switch {
			case b.Op == token.LEQ && n == 0, b.Op == token.LSS && n == 1, b.Op == token.EQL && n == 0:
				return onTrue
			case b.Op == token.GTR && n == 0, b.Op == token.GEQ && n == 1, b.Op == token.NEQ && n == 0:
				return !onTrue
			}
			return false
		}
		skipped := false
		// from the loop header around the loop without persistSegment and without the Len()<=0 edge
		start := point{head, 0}
		walk(start, walkOpts{noInline: true,
			visit: func(i ssa.Instruction, t *tracker) bool {
				return isCallOf(i, persistSeg)
			},
			edge: func(from, to *ssa.BasicBlock, label string, cond ssa.Value, onTrue bool, t *tracker) bool {
				if !loop[to] || lenEdge(from, to, cond, onTrue) {
					return true
				}
				if to == head && loop[from] {
					skipped = true // back at the loop header without having persisted the segment
					return true
				}
				return false
			}})
		_ = fAfield
		why := "an iteration leaves out a segment only on the `Len() <= 0` edge"
		if skipped {
			why = "a segment of the incoming stack can be left out of the file on a condition other than `Len() <= 0` (e.g. 'no key/value bytes'): a segment that only sets or deletes the empty key has operations but no bytes, so it would be dropped as if persisted"
		}
		o.add(c.fname(ps), "segments skipped only when Len() <= 0", c.pos(ps.Pos()), !skipped, why)
	}
	fBuf := c.Field("segment", "buf")
	for _, f := range c.Funcs {
		fn := c.fname(f)
		eachInstr(f, func(i ssa.Instruction) {
			a, ok := i.(*ssa.Alloc)
			if !ok || typeName(a.Type()) != "segment" {
				return
			}
			if _, isStruct := a.Type().Underlying().(*types.Pointer).Elem().Underlying().(*types.Struct); !isStruct {
				return
			}
			var stored []ssa.Value
			if refs := a.Referrers(); refs != nil {
				for _, r := range *refs {
					if fa, ok := r.(*ssa.FieldAddr); ok && fieldAddrVar(fa) == fBuf {
						if rr := fa.Referrers(); rr != nil {
							for _, u := range *rr {
								if st, ok := u.(*ssa.Store); ok && st.Addr == fa {
									stored = append(stored, st.Val)
								}
							}
						}
					}
				}
			}
			if len(stored) == 0 {
				o.add(fn, "segment literal: buf", c.instrPos(a), false, "the segment is constructed without a buf: a zero-length value sliced from a nil buf is nil, which readers take for 'absent'")
				return
			}
			nilPossible := false
			for _, v := range stored {
				for _, og := range origins(v) {
					if isNilConst(og) {
						nilPossible = true
					}
				}
			}
			why := "buf is non-nil on every path (make / literal / slice of the mapping)"
			if nilPossible {
				why = "buf can be nil (e.g. when the segment has no key/value bytes): an entry with an empty key and empty value, or a tombstone of the empty key, then reads as 'absent' and older data shows through"
			}
			o.add(fn, "segment literal: buf", c.instrPos(a), !nilPossible, why)
		})
	}
	return o.list
}

func init() {
	register(&Rule{
		ID: "MRG-4",
		Doc: "A merge operand met by a reader is resolved against everything below it: in segmentStack.get and iterator.Current every path from the `op == OperationMerge` edge to a return with a nil " +
			"error passes a call of segmentStack.getMerged (which looks the key up in the lower segments, base and lower level); and MergeOperator.FullMerge is invoked directly only by getMerged and by " +
			"iteratorSingle.Current (a single segment with nothing below it). A shortcut that folds the operand onto nil because a neighbouring heap slot holds another key drops the older operands.",
		Props: []string{"C08", "C10"},
		Floor: 3,
		Run:   ruleMrg4,
	})
}

func ruleMrg4(c *Ctx) []*Ob {
	o := newObs(c, "MRG-4")
	gm := c.Fn("(*segmentStack).getMerged")
	for _, name := range []string{"(*segmentStack).get", "(*iterator).Current"} {
		f := c.Fn(name)
		fn := c.fname(f)
		res := f.Signature.Results()
		errIdx := res.Len() - 1
		n := 0
		for _, b := range f.Blocks {
			iff, ok := b.Instrs[len(b.Instrs)-1].(*ssa.If)
			if !ok {
				continue
			}
			_, eqOnTrue, isT := isOpTest(c, iff.Cond, "OperationMerge")
			if !isT {
				continue
			}
			n++
			si := 1
			if eqOnTrue {
				si = 0
			}
			start := point{b.Succs[si], 0}
			bad := ""
			walk(start, walkOpts{noInline: true, visit: func(i ssa.Instruction, t *tracker) bool {
				if bad != "" {
					return true
				}
				if call, isC := i.(*ssa.Call); isC && call.Call.StaticCallee() == gm {
					return true
				}
				if r, isR := i.(*ssa.Return); isR {
					if len(r.Results) > errIdx && isNilConst(r.Results[errIdx]) {
						bad = c.instrPos(i)
					}
					return true
				}
				return false
			}})
			why := "every successful return behind op == OperationMerge passes getMerged"
			if bad != "" {
				why = "behind op == OperationMerge a path reaches the successful return at " + bad + " without getMerged: the operand is handed out (or folded onto nil) without the older operands and the base value below it"
			}
			o.add(fn, "merge branch resolves through getMerged", c.instrPos(iff), bad == "", why)
		}
		if n == 0 {
			o.add(fn, "merge branch", c.pos(f.Pos()), false, "anchor lost: no OperationMerge test (MRG-3 reports the missing branch)")
		}
	}
	// the lookup below the operand is not narrowed by the library itself
	fSkip := c.Field("ReadOptions", "SkipLowerLevel")
	for _, f := range c.Funcs {
		if c.isHarness(f) {
			continue
		}
		for _, a := range fieldAccesses(f, func(v *types.Var) bool { return v == fSkip }) {
			if a.Kind == "load" {
				continue
			}
			okk := false
			if k, isK := a.Val.(*ssa.Const); a.Kind == "store" && isK && k.Value != nil && k.Value.String() == "false" {
				okk = true
			}
			why := "cleared only"
			if !okk {
				why = "library code sets ReadOptions.SkipLowerLevel itself: a lookup (or the resolution of a merge operand) stops above the lower level although the caller did not ask for that"
			}
			o.add(c.fname(f), "write ReadOptions.SkipLowerLevel", c.instrPos(a.Instr), okk, why)
		}
		for _, k := range callsToFn(f, gm) {
			if len(k.Call.Args) < 4 {
				continue
			}
			seg := k.Call.Args[3]
			okk, n := true, 0
			// indices at which this function reads a segment of a stack
			var segIdx []ssa.Value
			eachInstr(f, func(j ssa.Instruction) {
				if ia, isIA := j.(*ssa.IndexAddr); isIA {
					if fv, _ := loadedField(ia.X); fv != nil && fv.Name() == "a" {
						segIdx = append(segIdx, ia.Index)
					}
				}
			})
			for _, og := range origins(seg) {
				n++
				b, isB := og.(*ssa.BinOp)
				if !isB || b.Op != token.SUB || !isConstInt(b.Y, 1) {
					okk = false
					continue
				}
				// ... of the segment that holds the operand: the index the segment was read at, or the cursor's ssIndex
				holds := false
				for _, ix := range segIdx {
					if b.X == ix { // the very value the segment was indexed with (not merely a value it may start from)
						holds = true
					}
				}
				for _, xo := range origins(b.X) {
					if fv, _ := loadedField(xo); fv != nil && fv.Name() == "ssIndex" {
						holds = true
					}
				}
				if !holds {
					okk = false
				}
			}
			why := "the lookup starts at the segment right below the one holding the operand (index - 1)"
			if !okk || n == 0 {
				okk = false
				why = "getMerged's start segment is " + accessPath(seg) + ", not always `index of the operand's segment - 1`: on some path the older operands and the base value in the segments below are not consulted"
			}
			o.add(c.fname(f), "getMerged start segment", c.instrPos(k), okk, why)
		}
	}
	// direct FullMerge callers
	for _, f := range c.Funcs {
		if c.isHarness(f) {
			continue
		}
		fn := c.fname(f)
		eachInstr(f, func(i ssa.Instruction) {
			call, ok := i.(*ssa.Call)
			if !ok || !call.Call.IsInvoke() || call.Call.Method.Name() != "FullMerge" {
				return
			}
			allowed := fn == "(*segmentStack).getMerged" || fn == "(*iteratorSingle).Current" ||
				onlyCalledFrom(c, f, map[string]string{"(*segmentStack).getMerged": "", "(*iteratorSingle).Current": ""}, 3) != ""
			why := "FullMerge is invoked where everything below the operand has been looked up (getMerged) or nothing is below it (iteratorSingle)"
			if !allowed {
				why = "FullMerge is invoked directly outside getMerged / iteratorSingle.Current: the existing value handed to it cannot be the fold of everything below the operand"
			}
			o.add(fn, "call MergeOperator.FullMerge", c.instrPos(i), allowed, why)
		})
	}
	return o.list
}

func isConstInt(v ssa.Value, n int64) bool {
	k, ok := v.(*ssa.Const)
	return ok && k.Value != nil && k.Value.Kind().String() == "Int" && k.Int64() == n
}

func init() {
	register(&Rule{
		ID: "ORDER-3",
		Doc: "base replaces the lower level: in segmentStack.get the lookup in ss.lowerLevelSnapshot is reachable only through the `base == nil` edge (the merger passes the in-flight " +
			"stackDirtyBase as base, which is newer than the lower level the stack was stamped with), and the lookup in base lies behind the scan of the stack's own segments.",
		Props: []string{"C13", "C08", "C10"},
		Floor: 1,
		Run:   ruleOrder3,
	})
}

func ruleOrder3(c *Ctx) []*Ob {
	o := newObs(c, "ORDER-3")
	f := c.Fn("(*segmentStack).get")
	fn := c.fname(f)
	fLL := c.Field("segmentStack", "lowerLevelSnapshot")
	base := paramNamed(f, "base")
	if base == nil {
		o.add(fn, "parameter base", c.pos(f.Pos()), false, "anchor lost: segmentStack.get has no base parameter")
		return o.list
	}
	baseNil := func(from, to *ssa.BasicBlock, cond ssa.Value, onTrue bool) bool {
		b, ok := cond.(*ssa.BinOp)
		if !ok || (b.Op != token.EQL && b.Op != token.NEQ) {
			return false
		}
		x, y := b.X, b.Y
		if isNilConst(x) {
			x, y = y, x
		}
		if !isNilConst(y) || !sameValue(x, base) {
			return false
		}
		return (b.Op == token.EQL) == onTrue
	}
	n := 0
	eachInstr(f, func(i ssa.Instruction) {
		ci, ok := i.(ssa.CallInstruction)
		if !ok {
			return
		}
		cc := ci.Common()
		var recv ssa.Value
		if cc.IsInvoke() {
			recv = cc.Value
		} else if sf := cc.StaticCallee(); sf != nil && sf.Signature.Recv() != nil && len(cc.Args) > 0 {
			recv = cc.Args[0]
		}
		if recv == nil {
			return
		}
		isLL := false
		for _, og := range origins(recv) {
			if fv, _ := loadedField(og); fv == fLL {
				isLL = true
			}
		}
		if !isLL {
			return
		}
		n++
		ok2 := mustPrecede(f, i, neverInstr, baseNil)
		why := "the lower level is consulted only when no base was given"
		if !ok2 {
			why = "the stack's lowerLevelSnapshot is consulted on a path where base may be non-nil: the merger resolves merge operands against the stale lower level instead of the stack that is being written back, and later hands a wrong value down"
		}
		o.add(fn, "lookup in lowerLevelSnapshot", c.instrPos(i), ok2, why)
	})
	if n == 0 {
		o.add(fn, "lookup in lowerLevelSnapshot", c.pos(f.Pos()), false, "anchor lost: segmentStack.get no longer falls back to the lower level")
	}
	return o.list
}

// mergeFreeGuard: store (the caching of the persisted stack) executes only behind the "no merge operations" edge of a
// predicate call whose receiver is the stack loaded from field fBase; returns a description, or "" when there is no such guard.
func mergeFreeGuard(c *Ctx, f *ssa.Function, store ssa.Instruction, fBase *types.Var) string {
	fTotMerge := c.FieldOpt("segment", "totOperationMerge")
	fChildren := c.Field("segmentStack", "childSegStacks")
	if fTotMerge == nil {
		return ""
	}
	// candidate predicates: bool functions that read totOperationMerge, return true behind a `> 0` / `!= 0` edge of it,
	// and call themselves on an element of childSegStacks
	isPred := func(g *ssa.Function) bool {
		if g == nil || g.Blocks == nil || g.Signature.Results().Len() != 1 {
			return false
		}
		if bt, ok := g.Signature.Results().At(0).Type().Underlying().(*types.Basic); !ok || bt.Kind() != types.Bool {
			return false
		}
		reports := false
		for _, b := range g.Blocks {
			iff, ok := b.Instrs[len(b.Instrs)-1].(*ssa.If)
			if !ok {
				continue
			}
			// the per-segment test may live in a helper called on the loop's element: `if segmentMayHaveMergeOps(seg) { return true }`
			if call, isCall := iff.Cond.(*ssa.Call); isCall && inLoopOverSegments(c, g, b) {
				if h := call.Call.StaticCallee(); h != nil && h != g && h.Pkg == c.Moss && reportsMergeCount(h, fTotMerge) && leadsToReturnTrue(b.Succs[0]) {
					reports = true
				}
			}
			// find a comparison of totOperationMerge with 0 somewhere in the condition (also behind `!ok || x > 0` phis)
			var conds []ssa.Value
			conds = append(conds, iff.Cond)
			for _, cnd := range conds {
				bo, isB := cnd.(*ssa.BinOp)
				if !isB {
					continue
				}
				var other ssa.Value
				op := bo.Op
				if fv, _ := loadedField(bo.X); fv == fTotMerge {
					other = bo.Y
				} else if fv, _ := loadedField(bo.Y); fv == fTotMerge {
					other = bo.X
					op = flipCmp(op)
				} else {
					continue
				}
				k, isK := constInt(other)
				if !isK || k != 0 {
					continue
				}
				// the test runs for every segment: it sits in a loop that indexes the stack's segment list with a
				// loop-carried index (a test of one fixed element - the newest, say - does not speak for the stack)
				if !inLoopOverSegments(c, g, b) {
					continue
				}
				var posSucc *ssa.BasicBlock
				switch op {
				case token.GTR, token.NEQ:
					posSucc = b.Succs[0]
				case token.LEQ, token.EQL:
					posSucc = b.Succs[1]
				default:
					continue
				}
				// the positive edge must lead to `return true` without another branch
				blk := posSucc
				for n := 0; n < 4 && blk != nil; n++ {
					last := blk.Instrs[len(blk.Instrs)-1]
					if r, isR := last.(*ssa.Return); isR {
						if len(r.Results) == 1 {
							for _, og := range origins(r.Results[0]) {
								if v, isC := constBool(og); isC && v {
									reports = true
								}
							}
						}
						break
					}
					if j, isJ := last.(*ssa.Jump); isJ {
						blk = j.Block().Succs[0]
						continue
					}
					break
				}
			}
		}
		if !reports {
			return false
		}
		recurses := false
		for _, k := range callsToFn(g, g) {
			if len(k.Call.Args) == 0 {
				continue
			}
			for _, og := range origins(k.Call.Args[0]) {
				if e, isE := og.(*ssa.Extract); isE {
					if nx, isN := e.Tuple.(*ssa.Next); isN {
						if rg, isR := nx.Iter.(*ssa.Range); isR {
							if fv, _ := loadedField(rg.X); fv == fChildren {
								recurses = true
							}
						}
					}
				}
				if lk, isL := og.(*ssa.Lookup); isL {
					if fv, _ := loadedField(lk.X); fv == fChildren {
						recurses = true
					}
				}
			}
		}
		return recurses
	}
	desc := ""
	guarded := mustPrecede(f, store, neverInstr, func(from, to *ssa.BasicBlock, cond ssa.Value, onTrue bool) bool {
		neg := false
		for {
			u, ok := cond.(*ssa.UnOp)
			if !ok || u.Op != token.NOT {
				break
			}
			neg = !neg
			cond = u.X
		}
		call, ok := cond.(*ssa.Call)
		if !ok {
			return false
		}
		g := call.Call.StaticCallee()
		if !isPred(g) || len(call.Call.Args) == 0 {
			return false
		}
		onBase := false
		for _, og := range origins(call.Call.Args[0]) {
			if fv, _ := loadedField(og); fv == fBase {
				onBase = true
			}
		}
		if !onBase {
			return false
		}
		val := onTrue
		if neg {
			val = !val
		}
		if !val { // the predicate reported "no merge operations" on this edge
			desc = "behind the false edge of " + c.fname(g) + "() on that stack (it reports segment.totOperationMerge > 0 for the stack and its child stacks)"
			return true
		}
		return false
	})
	if guarded && desc != "" {
		return desc
	}
	return ""
}

// inLoopOverSegments: block b of g lies in a loop that reads segmentStack.a[i] with a loop-carried index i.
func inLoopOverSegments(c *Ctx, g *ssa.Function, b *ssa.BasicBlock) bool {
	scc := sccOf(g, b)
	if scc == nil {
		return false
	}
	fA := c.Field("segmentStack", "a")
	ok := false
	eachInstr(g, func(i ssa.Instruction) {
		if !scc[i.Block()] {
			return
		}
		var x, idx ssa.Value
		switch v := i.(type) {
		case *ssa.IndexAddr:
			x, idx = v.X, v.Index
		case *ssa.Index:
			x, idx = v.X, v.Index
		default:
			return
		}
		if fv, _ := loadedField(x); fv != fA {
			return
		}
		// loop-carried: the index is (derived from) a phi of this loop
		backSlice(idx, func(w ssa.Value) bool {
			if phi, isPhi := w.(*ssa.Phi); isPhi && scc[phi.Block()] {
				ok = true
			}
			if bo, isB := w.(*ssa.BinOp); isB {
				for _, opnd := range []ssa.Value{bo.X, bo.Y} {
					if phi, isPhi := opnd.(*ssa.Phi); isPhi && scc[phi.Block()] {
						ok = true
					}
				}
			}
			return false
		})
	})
	return ok
}

// reportsMergeCount: bool helper h answers "this segment holds merge operations": a return value that is (or a return
// of true behind) a comparison totOperationMerge > 0 / != 0.
func reportsMergeCount(h *ssa.Function, fTotMerge *types.Var) bool {
	if h.Blocks == nil || h.Signature.Results().Len() != 1 {
		return false
	}
	isPosCmp := func(v ssa.Value) (*ssa.BinOp, bool) {
		bo, ok := v.(*ssa.BinOp)
		if !ok {
			return nil, false
		}
		op := bo.Op
		var other ssa.Value
		if fv, _ := loadedField(bo.X); fv == fTotMerge {
			other = bo.Y
		} else if fv, _ := loadedField(bo.Y); fv == fTotMerge {
			other = bo.X
			op = flipCmp(op)
		} else {
			return nil, false
		}
		k, isK := constInt(other)
		return bo, isK && k == 0 && (op == token.GTR || op == token.NEQ)
	}
	found := false
	eachInstr(h, func(i ssa.Instruction) {
		switch x := i.(type) {
		case *ssa.Return:
			if len(x.Results) == 1 {
				for _, og := range origins(x.Results[0]) {
					if _, ok := isPosCmp(og); ok {
						found = true
					}
				}
			}
		case *ssa.If:
			if _, ok := isPosCmp(x.Cond); ok && leadsToReturnTrue(x.Block().Succs[0]) {
				found = true
			}
		}
	})
	return found
}

// leadsToReturnTrue: from blk, through unconditional jumps only, a `return true` is reached.
func leadsToReturnTrue(blk *ssa.BasicBlock) bool {
	for n := 0; n < 4 && blk != nil; n++ {
		last := blk.Instrs[len(blk.Instrs)-1]
		if r, isR := last.(*ssa.Return); isR {
			if len(r.Results) == 1 {
				for _, og := range origins(r.Results[0]) {
					if v, isC := constBool(og); isC && v {
						return true
					}
				}
			}
			return false
		}
		if _, isJ := last.(*ssa.Jump); isJ {
			blk = blk.Succs[0]
			continue
		}
		return false
	}
	return false
}
