package main

// ENC-7: presence of a value is its nil-ness, never its length (C19, C08, C10).

import (
	"go/types"

	"golang.org/x/tools/go/ssa"
)

func init() {
	register(&Rule{
		ID: "ENC-7",
		Doc: "An empty value is a value: no branch condition of the library is computed from len(v) where v is a value handed back by a lookup (a Get / get / getMerged method of a moss type or " +
			"of the Snapshot / Segment / Collection interfaces) or by the merge operator (FullMerge / PartialMerge). Absence and 'the merge produced a deletion' are signalled by nil; a " +
			"length test turns a legal, present, empty value - Set(k, \"\"), or a merge whose result is empty - into a miss or a tombstone, which then shadows nothing and is dropped by the " +
			"next compaction. Zero sites are expected on the current tree; positive controls are the mutants enc7-*.",
		Props: []string{"C19", "C08", "C10"},
		Floor: 0,
		Run:   ruleEnc7,
	})
}

func ruleEnc7(c *Ctx) []*Ob {
	o := newObs(c, "ENC-7")
	lookupNames := map[string]bool{"Get": true, "get": true, "getMerged": true, "FullMerge": true, "PartialMerge": true}
	isByteSlice := func(t types.Type) bool {
		s, ok := t.Underlying().(*types.Slice)
		if !ok {
			return false
		}
		b, ok := s.Elem().Underlying().(*types.Basic)
		return ok && b.Kind() == types.Uint8
	}
	fromLookup := func(v ssa.Value) string {
		name := ""
		backSlice(v, func(w ssa.Value) bool {
			call, ok := w.(*ssa.Call)
			if !ok {
				return false
			}
			n := ""
			if call.Call.IsInvoke() {
				n = call.Call.Method.Name()
			} else if sf := call.Call.StaticCallee(); sf != nil && sf.Pkg == c.Moss && sf.Signature.Recv() != nil {
				n = sf.Name()
			}
			if lookupNames[n] {
				name = calleeName(call)
				return true
			}
			return false
		})
		return name
	}
	sites := 0
	for _, f := range c.Funcs {
		if c.isHarness(f) {
			continue
		}
		fn := c.fname(f)
		for _, b := range f.Blocks {
			iff, ok := b.Instrs[len(b.Instrs)-1].(*ssa.If)
			if !ok {
				continue
			}
			condSlice(iff.Cond, func(w ssa.Value) bool {
				call, isCall := w.(*ssa.Call)
				if !isCall {
					return false
				}
				bi, isBi := call.Call.Value.(*ssa.Builtin)
				if !isBi || bi.Name() != "len" || !isByteSlice(call.Call.Args[0].Type()) {
					return false
				}
				if src := fromLookup(call.Call.Args[0]); src != "" {
					sites++
					o.add(fn, "branch on the length of the value returned by "+src, c.instrPos(iff), false,
						"the decision depends on len() of a looked-up / merged value: an empty value is a legal, present value (absence is nil); treating it as missing or as a deletion loses the key")
				}
				return false
			})
		}
	}
	if sites == 0 {
		o.trivial("-", "no branch on the length of a looked-up or merged value", "-", "no such condition in the library (positive controls: mutants enc7-*)")
	}
	return o.list
}
