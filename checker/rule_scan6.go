package main

// SCAN-6: a read fault during the footer scan is reported, not taken for a torn footer (C12, C06, C05).

import (
	"golang.org/x/tools/go/ssa"
)

func init() {
	register(&Rule{
		ID: "SCAN-6",
		Doc: "A torn tail looks like io.EOF; anything else is a fault: the error result of every File.ReadAt in ScanFooter escapes (is returned on some path), it is not merely compared and " +
			"dropped. A scan that treats every failed read like a missing footer steps back to an older footer and hands it out with a nil error: SnapshotPrevious then yields the content " +
			"of two rounds back as 'the previous snapshot', and a reopen after a transient fault silently adopts an older state. (R-SCAN decides the opposite direction: a bad candidate " +
			"must not abort the scan.)",
		Props: []string{"C12", "C06", "C05"},
		Floor: 2,
		Run:   ruleScan6,
	})
}

func ruleScan6(c *Ctx) []*Ob {
	o := newObs(c, "SCAN-6")
	f := c.Fn("ScanFooter")
	fn := c.fname(f)
	n := 0
	eachInstr(f, func(i ssa.Instruction) {
		call, ok := i.(*ssa.Call)
		if !ok || !call.Call.IsInvoke() || call.Call.Method.Name() != "ReadAt" {
			return
		}
		n++
		escapes := false
		for _, ev := range errValues(call) {
			if errEscapes(c, ev).escapes {
				escapes = true
			}
		}
		why := "the read error is returned on some path"
		if !escapes {
			why = "the error of this ReadAt is only tested, never returned: a read fault (EIO) is taken for a torn footer, the scan steps back and hands out an older footer with a nil error"
		}
		o.add(fn, "ReadAt error escapes", c.instrPos(i), escapes, why)
	})
	if n == 0 {
		o.add(fn, "ReadAt error escapes", c.pos(f.Pos()), false, "anchor lost: ScanFooter no longer reads the file")
	}
	return o.list
}
