package main

// ssah.go: small reusable analyses over go/ssa used by the rule families.

import (
	"fmt"
	"go/constant"
	"go/token"
	"go/types"
	"sort"
	"strings"

	"golang.org/x/tools/go/ssa"
)

// ---------------------------------------------------------------- basics

func eachInstr(f *ssa.Function, fn func(ssa.Instruction)) {
	for _, b := range f.Blocks {
		for _, i := range b.Instrs {
			fn(i)
		}
	}
}

func instrIndex(i ssa.Instruction) int {
	for k, j := range i.Block().Instrs {
		if j == i {
			return k
		}
	}
	return -1
}

// fieldAddrVar returns the struct field a FieldAddr selects.
func fieldAddrVar(fa *ssa.FieldAddr) *types.Var {
	pt, ok := fa.X.Type().Underlying().(*types.Pointer)
	if !ok {
		return nil
	}
	st, ok := pt.Elem().Underlying().(*types.Struct)
	if !ok {
		return nil
	}
	return st.Field(fa.Field)
}

func fieldVar(fv *ssa.Field) *types.Var {
	st, ok := fv.X.Type().Underlying().(*types.Struct)
	if !ok {
		return nil
	}
	return st.Field(fv.Field)
}

// asFieldAddr returns (field, base) when v is the address of a struct field.
func asFieldAddr(v ssa.Value) (*types.Var, ssa.Value) {
	if fa, ok := v.(*ssa.FieldAddr); ok {
		return fieldAddrVar(fa), fa.X
	}
	return nil, nil
}

// loadedField returns (field, base) when v is a load of a struct field
// (through FieldAddr + load, or a Field of a struct value).
func loadedField(v ssa.Value) (*types.Var, ssa.Value) {
	switch v := v.(type) {
	case *ssa.UnOp:
		if v.Op == token.MUL {
			return asFieldAddr(v.X)
		}
	case *ssa.Field:
		return fieldVar(v), v.X
	}
	return nil, nil
}

// access is one read or write of a struct field.
type access struct {
	Field *types.Var
	Base  ssa.Value // pointer to (or value of) the struct
	Instr ssa.Instruction
	Write bool
	// Val is the stored value for plain writes.
	Val ssa.Value
	// Kind: "load", "store", "mapupdate", "elemstore", "append", "addr" (address escapes)
	Kind string
}

// fieldAccesses enumerates every access in f to any field of the set.
// A FieldAddr whose address is used other than by load/store (passed to a
// call, e.g. atomic.AddUint64(&x.f, 1), or sync.Mutex methods) is "addr".
func fieldAccesses(f *ssa.Function, want func(*types.Var) bool) []access {
	var out []access
	eachInstr(f, func(i ssa.Instruction) {
		switch i := i.(type) {
		case *ssa.FieldAddr:
			fv := fieldAddrVar(i)
			if fv == nil || !want(fv) {
				return
			}
			refs := i.Referrers()
			if refs == nil {
				return
			}
			for _, r := range *refs {
				switch r := r.(type) {
				case *ssa.UnOp:
					if r.Op == token.MUL {
						out = append(out, access{Field: fv, Base: i.X, Instr: r, Kind: "load"})
						// writes through the loaded map / slice value
						out = append(out, derivedWrites(fv, i.X, r)...)
						// reads of the contents of a loaded map / slice (the contents are as shared as the field)
						out = append(out, derivedReads(fv, i.X, r)...)
						continue
					}
					out = append(out, access{Field: fv, Base: i.X, Instr: r, Kind: "addr"})
				case *ssa.Store:
					if r.Addr == i {
						out = append(out, access{Field: fv, Base: i.X, Instr: r, Write: true, Val: r.Val, Kind: "store"})
					} else {
						out = append(out, access{Field: fv, Base: i.X, Instr: r, Kind: "addr"})
					}
				case *ssa.DebugRef:
				default:
					out = append(out, access{Field: fv, Base: i.X, Instr: r, Kind: "addr"})
				}
			}
		case *ssa.Field:
			fv := fieldVar(i)
			if fv == nil || !want(fv) {
				return
			}
			out = append(out, access{Field: fv, Base: i.X, Instr: i, Kind: "load"})
		}
	})
	return out
}

// derivedWrites finds in-place writes through a loaded map or slice field
// value: m[k] = v, delete(m, k), s[i] = v.
func derivedWrites(fv *types.Var, base ssa.Value, load *ssa.UnOp) []access {
	var out []access
	refs := load.Referrers()
	if refs == nil {
		return nil
	}
	for _, r := range *refs {
		switch r := r.(type) {
		case *ssa.MapUpdate:
			if r.Map == load {
				out = append(out, access{Field: fv, Base: base, Instr: r, Write: true, Val: r.Value, Kind: "mapupdate"})
			}
		case *ssa.Call:
			if b, ok := r.Call.Value.(*ssa.Builtin); ok && b.Name() == "delete" && len(r.Call.Args) > 0 && r.Call.Args[0] == load {
				out = append(out, access{Field: fv, Base: base, Instr: r, Write: true, Kind: "mapupdate"})
			}
		case *ssa.IndexAddr:
			if r.X == load {
				if rr := r.Referrers(); rr != nil {
					for _, s := range *rr {
						if st, ok := s.(*ssa.Store); ok && st.Addr == r {
							out = append(out, access{Field: fv, Base: base, Instr: st, Write: true, Val: st.Val, Kind: "elemstore"})
						}
					}
				}
			}
		}
	}
	return out
}

// derivedReads finds reads of the contents of a loaded map or slice field
// value: m[k], range m (each Next), s[i].
func derivedReads(fv *types.Var, base ssa.Value, load *ssa.UnOp) []access {
	switch load.Type().Underlying().(type) {
	case *types.Map, *types.Slice:
	default:
		return nil
	}
	var out []access
	refs := load.Referrers()
	if refs == nil {
		return nil
	}
	for _, r := range *refs {
		switch r := r.(type) {
		case *ssa.Lookup:
			if r.X == load {
				out = append(out, access{Field: fv, Base: base, Instr: r, Kind: "load"})
			}
		case *ssa.Range:
			if r.X == load {
				out = append(out, access{Field: fv, Base: base, Instr: r, Kind: "load"})
				if rr := r.Referrers(); rr != nil {
					for _, n := range *rr {
						if nx, ok := n.(*ssa.Next); ok {
							out = append(out, access{Field: fv, Base: base, Instr: nx, Kind: "load"})
						}
					}
				}
			}
		case *ssa.IndexAddr:
			if r.X == load {
				if rr := r.Referrers(); rr != nil {
					for _, u := range *rr {
						if ld, ok := u.(*ssa.UnOp); ok && ld.Op == token.MUL {
							out = append(out, access{Field: fv, Base: base, Instr: ld, Kind: "load"})
						}
					}
				}
			}
		case *ssa.Index:
			if r.X == load {
				out = append(out, access{Field: fv, Base: base, Instr: r, Kind: "load"})
			}
		}
	}
	return out
}

// staticCallee returns the statically resolved callee of a call, if any.
func staticCallee(ci ssa.CallInstruction) *ssa.Function {
	return ci.Common().StaticCallee()
}

// calleeName gives a printable name for any call: static callee full name,
// interface method "invoke T.M", builtin, or "dynamic".
func calleeName(ci ssa.CallInstruction) string {
	cc := ci.Common()
	if cc.IsInvoke() {
		return "invoke " + types.TypeString(cc.Value.Type(), shortQual) + "." + cc.Method.Name()
	}
	if f := cc.StaticCallee(); f != nil {
		return f.String()
	}
	if b, ok := cc.Value.(*ssa.Builtin); ok {
		return "builtin " + b.Name()
	}
	return "dynamic " + cc.Value.Name()
}

func shortQual(p *types.Package) string {
	if p.Path() == mossPath {
		return ""
	}
	return p.Name()
}

// isInvokeOf tells whether ci is an interface method call named method on
// an interface type whose (named) type name is iface ("" = any).
func isInvokeOf(ci ssa.CallInstruction, iface, method string) bool {
	cc := ci.Common()
	if !cc.IsInvoke() || cc.Method.Name() != method {
		return false
	}
	if iface == "" {
		return true
	}
	return typeName(cc.Value.Type()) == iface
}

// typeName returns the bare name of a (pointer to) named type.
func typeName(t types.Type) string {
	if p, ok := t.(*types.Pointer); ok {
		t = p.Elem()
	}
	if n, ok := t.(*types.Named); ok {
		return n.Obj().Name()
	}
	return ""
}

func typePkgPath(t types.Type) string {
	if p, ok := t.(*types.Pointer); ok {
		t = p.Elem()
	}
	if n, ok := t.(*types.Named); ok && n.Obj().Pkg() != nil {
		return n.Obj().Pkg().Path()
	}
	return ""
}

// isFuncNamed: static callee with the given package path and name
// (methods: "(*T).M" or "(T).M" form via RelString).
func isStaticCall(ci ssa.CallInstruction, pkgPath, name string) bool {
	f := staticCallee(ci)
	if f == nil {
		return false
	}
	var p *types.Package
	if f.Pkg != nil {
		p = f.Pkg.Pkg
	} else if f.Object() != nil {
		p = f.Object().Pkg()
	}
	if p == nil || p.Path() != pkgPath {
		return false
	}
	return f.RelString(p) == name
}

// callsIn lists the call instructions (call, defer, go) of f satisfying pred.
func callsIn(f *ssa.Function, pred func(ssa.CallInstruction) bool) []ssa.CallInstruction {
	var out []ssa.CallInstruction
	eachInstr(f, func(i ssa.Instruction) {
		if ci, ok := i.(ssa.CallInstruction); ok && pred(ci) {
			out = append(out, ci)
		}
	})
	return out
}

// errResultIndex returns the index of the (last) error result of a call's
// signature, or -1.
func errResultIndex(sig *types.Signature) int {
	r := sig.Results()
	if r.Len() == 0 {
		return -1
	}
	last := r.At(r.Len() - 1).Type()
	if isErrorType(last) {
		return r.Len() - 1
	}
	return -1
}

func isErrorType(t types.Type) bool {
	n, ok := t.(*types.Named)
	return ok && n.Obj().Pkg() == nil && n.Obj().Name() == "error"
}

// errValues returns the SSA values holding the error result of call.
func errValues(call *ssa.Call) []ssa.Value {
	sig := call.Call.Signature()
	idx := errResultIndex(sig)
	if idx < 0 {
		return nil
	}
	if sig.Results().Len() == 1 {
		return []ssa.Value{call}
	}
	var out []ssa.Value
	if refs := call.Referrers(); refs != nil {
		for _, r := range *refs {
			if e, ok := r.(*ssa.Extract); ok && e.Index == idx {
				out = append(out, e)
			}
		}
	}
	return out
}

func isNilConst(v ssa.Value) bool {
	c, ok := v.(*ssa.Const)
	return ok && c.Value == nil
}

func constBool(v ssa.Value) (val, ok bool) {
	c, isC := v.(*ssa.Const)
	if !isC || c.Value == nil || c.Value.Kind() != constant.Bool {
		return false, false
	}
	return constant.BoolVal(c.Value), true
}

func constInt(v ssa.Value) (int64, bool) {
	c, isC := v.(*ssa.Const)
	if !isC || c.Value == nil {
		return 0, false
	}
	if c.Value.Kind() != constant.Int {
		return 0, false
	}
	n, exact := constant.Int64Val(c.Value)
	if !exact {
		u, ok := constant.Uint64Val(c.Value)
		return int64(u), ok
	}
	return n, true
}

// ---------------------------------------------------------------- path engine

// point is the program point just before instruction i of block b.
type point struct {
	b *ssa.BasicBlock
	i int
}

// tracker follows the copies of a set of "tracked" SSA values (typically one
// error result) along one CFG path: through phis (resolved by the edge
// taken), stores into / loads from local cells, and interface conversions.
type tracker struct {
	vals  map[ssa.Value]bool // values known equal to the tracked one
	cells map[ssa.Value]bool // addresses currently holding the tracked one
	// subst binds, along an interprocedural path, a callee's parameters to the
	// caller's arguments and a call's value(s) to what the callee returned.
	subst map[ssa.Value]ssa.Value
}

// resolve follows the substitution chain of v.
func (t *tracker) resolve(v ssa.Value) ssa.Value {
	for n := 0; n < 12; n++ {
		w, ok := t.subst[v]
		if !ok || w == v {
			return v
		}
		v = w
	}
	return v
}

func newTracker(vs ...ssa.Value) *tracker {
	t := &tracker{vals: map[ssa.Value]bool{}, cells: map[ssa.Value]bool{}, subst: map[ssa.Value]ssa.Value{}}
	for _, v := range vs {
		t.vals[v] = true
	}
	return t
}

func (t *tracker) clone() *tracker {
	n := newTracker()
	for k := range t.vals {
		n.vals[k] = true
	}
	for k := range t.cells {
		n.cells[k] = true
	}
	for k, v := range t.subst {
		n.subst[k] = v
	}
	return n
}

func (t *tracker) key() string {
	var s []string
	for k := range t.vals {
		s = append(s, "v"+k.Name())
	}
	for k := range t.cells {
		s = append(s, "c"+k.Name())
	}
	for k, v := range t.subst {
		// constant results of inlined callees decide which branches are feasible
		if c, ok := v.(*ssa.Const); ok {
			s = append(s, fmt.Sprintf("s%p=%s", k, c.Name()))
		}
	}
	sort.Strings(s)
	return strings.Join(s, ",")
}

// step updates the tracker for one non-phi instruction. origin is the call
// whose result tuple seeds the tracking (Extracts of it join the set).
func (t *tracker) step(i ssa.Instruction, origin *ssa.Call, originIdx int) {
	switch i := i.(type) {
	case *ssa.Extract:
		if origin != nil && i.Tuple == origin && i.Index == originIdx {
			t.vals[i] = true
		}
	case *ssa.Store:
		if t.vals[i.Val] {
			t.cells[i.Addr] = true
		} else if t.cells[i.Addr] {
			delete(t.cells, i.Addr)
		}
	case *ssa.UnOp:
		if i.Op == token.MUL && t.cells[i.X] {
			t.vals[i] = true
		}
	case *ssa.ChangeInterface:
		if t.vals[i.X] {
			t.vals[i] = true
		}
	case *ssa.MakeInterface:
		if t.vals[i.X] {
			t.vals[i] = true
		}
	case *ssa.ChangeType:
		if t.vals[i.X] {
			t.vals[i] = true
		}
	case *ssa.Slice:
		if t.vals[i.X] {
			t.vals[i] = true // a re-slice aliases the same backing array
		}
	}
}

// enter updates the tracker for the phis of block to, entered from block from.
func (t *tracker) enter(from, to *ssa.BasicBlock) {
	idx := -1
	for k, p := range to.Preds {
		if p == from {
			idx = k
			break
		}
	}
	if idx < 0 {
		return
	}
	type upd struct {
		phi *ssa.Phi
		on  bool
	}
	var us []upd
	for _, i := range to.Instrs {
		phi, ok := i.(*ssa.Phi)
		if !ok {
			break
		}
		us = append(us, upd{phi, t.vals[phi.Edges[idx]]})
		// a boolean phi fed by a constant on this edge (`a && b` when a is false) is that constant on this path:
		// it decides the branch on a helper's result like a constant return does
		if b, isBasic := phi.Type().Underlying().(*types.Basic); isBasic && b.Kind() == types.Bool {
			if rv := t.resolve(phi.Edges[idx]); rv != ssa.Value(phi) {
				t.subst[phi] = rv
			} else {
				delete(t.subst, phi)
			}
		}
	}
	for _, u := range us {
		if u.on {
			t.vals[u.phi] = true
		} else {
			delete(t.vals, u.phi)
		}
	}
}

// nilTest classifies an If condition as a nil test of a tracked value.
// It returns (isTest, nilOnTrue).
func (t *tracker) nilTest(cond ssa.Value) (bool, bool) {
	b, ok := cond.(*ssa.BinOp)
	if !ok || (b.Op != token.EQL && b.Op != token.NEQ) {
		return false, false
	}
	var x ssa.Value
	switch {
	case isNilConst(b.Y):
		x = b.X
	case isNilConst(b.X):
		x = b.Y
	default:
		return false, false
	}
	if !t.vals[x] {
		return false, false
	}
	return true, b.Op == token.EQL
}

// walkOpts configures a path walk.
type walkOpts struct {
	// origin/originIdx: the call whose error (result index) is tracked.
	origin    *ssa.Call
	originIdx int
	seed      []ssa.Value
	// visit is called for every instruction reached; returning true prunes
	// the path at this instruction (the instruction is not "passed").
	visit func(i ssa.Instruction, t *tracker) (prune bool)
	// edge is called for every CFG edge about to be taken. label is
	// "nil"/"nonnil" when the If tests a tracked value, "" otherwise.
	// Returning true prunes that edge.
	edge func(from, to *ssa.BasicBlock, label string, cond ssa.Value, onTrue bool, t *tracker) (prune bool)
	// noInline keeps the walk inside the function it started in.
	noInline bool
}

var walkGaveUp int
var walkDebug = false

// maxInlineDepth bounds how many call levels walk descends into.
const maxInlineDepth = 2

// smallCallee: below the first level only small helpers (isClosed, Options, addRef …) are entered.
const smallCallee = 8

// inlinable: a call the walker descends into: a plain call of a moss function
// with a body, so that a guard, a lock operation or a check that was moved
// into a helper is seen where it executes.
func inlinable(call *ssa.Call) *ssa.Function {
	h := call.Call.StaticCallee()
	if h == nil || h.Blocks == nil || h.Pkg == nil || h.Pkg.Pkg.Path() != mossPath {
		return nil
	}
	if len(h.Blocks) > 80 {
		return nil
	}
	return h
}

// walk explores every CFG path from start (path-sensitive only in the
// tracked-value set), visiting each (call stack, block, tracker-state) once.
// It descends into moss callees (maxInlineDepth levels, no recursion): their
// instructions and edges are visited like the caller's; their returns are not
// reported to visit (only returns of the function the walk started in are);
// a constant boolean result decides the caller's branch on it.
func walk(start point, o walkOpts) {
	if o.noInline {
		walkImpl(start, o)
		return
	}
	if !walkImpl(start, o) {
		// the interprocedural state space was too large: fall back to the intra-procedural walk
		// (the callbacks only ever set flags, so running them again is harmless)
		walkGaveUp++
		o.noInline = true
		walkImpl(start, o)
	}
}

func walkImpl(start point, o walkOpts) bool {
	type frame = walkFrame
	type item struct {
		p     point
		t     *tracker
		stack []frame
	}
	seen := map[string]bool{}
	t0 := newTracker(o.seed...)
	work := []item{{p: start, t: t0}}
	stackKey := func(st []frame) string {
		k := ""
		for _, f := range st {
			k += fmt.Sprintf("%p>", f.call)
		}
		return k
	}
	for len(work) > 0 {
		it := work[len(work)-1]
		work = work[:len(work)-1]
		b, t := it.p.b, it.t
		k := fmt.Sprintf("%s%p:%d@%d|%s", stackKey(it.stack), b.Parent(), b.Index, it.p.i, t.key())
		if seen[k] {
			continue
		}
		seen[k] = true
		if len(seen) > 60000 {
			return false
		}
		pruned := false
		descended := false
		for idx := it.p.i; idx < len(b.Instrs); idx++ {
			ins := b.Instrs[idx]
			if _, isPhi := ins.(*ssa.Phi); isPhi {
				continue
			}
			if r, isRet := ins.(*ssa.Return); isRet && len(it.stack) > 0 {
				// return from an inlined callee: bind the results and continue in the caller
				fr := it.stack[len(it.stack)-1]
				if walkDebug {
					fmt.Printf("DEBUG return from %s to %s@%d\n", b.Parent().Name(), fr.ret.b.Parent().Name(), fr.ret.i)
				}
				nt := t.clone()
				bindResults(nt, fr.call, r)
				work = append(work, item{p: fr.ret, t: nt, stack: it.stack[:len(it.stack)-1]})
				descended = true
				break
			}
			if o.visit != nil && o.visit(ins, t) {
				pruned = true
				break
			}
			t.step(ins, o.origin, o.originIdx)
			if call, isCall := ins.(*ssa.Call); isCall && !o.noInline && len(it.stack) < maxInlineDepth && call != o.origin {
				if h := inlinable(call); h != nil && !onStack(it.stack, h, b.Parent()) && (len(it.stack) == 0 || len(h.Blocks) <= smallCallee) {
					nt := t.clone()
					for pi, p := range h.Params {
						if pi < len(call.Call.Args) {
							arg := nt.resolve(call.Call.Args[pi])
							nt.subst[p] = arg
							if nt.vals[call.Call.Args[pi]] {
								nt.vals[p] = true
							}
						}
					}
					if walkDebug {
						fmt.Printf("DEBUG inline %s from %s\n", h.Name(), b.Parent().Name())
					}
					ns := append(append([]frame{}, it.stack...), frame{call, point{b, idx + 1}})
					work = append(work, item{p: point{h.Blocks[0], 0}, t: nt, stack: ns})
					descended = true
					break
				}
			}
		}
		if pruned || descended {
			continue
		}
		var cond ssa.Value
		if len(b.Instrs) > 0 {
			if iff, ok := b.Instrs[len(b.Instrs)-1].(*ssa.If); ok {
				cond = iff.Cond
			}
		}
		// resolve the condition through negations (cond1) and, further, through inlined results (cond2)
		flip1, flip2 := false, false
		cond1, cond2 := cond, cond
		if cond != nil {
			for n := 0; n < 12; n++ {
				if u, ok := cond1.(*ssa.UnOp); ok && u.Op == token.NOT {
					cond1 = u.X
					flip1 = !flip1
					continue
				}
				break
			}
			cond2, flip2 = cond1, flip1
			for n := 0; n < 12; n++ {
				if u, ok := cond2.(*ssa.UnOp); ok && u.Op == token.NOT {
					cond2 = u.X
					flip2 = !flip2
					continue
				}
				if w, ok := t.subst[cond2]; ok && w != cond2 {
					if _, isConst := w.(*ssa.Const); isConst {
						// remember the value that evaluated to the constant (e.g. the isClosed() call)
						cond1, flip1 = cond2, flip2
					}
					cond2 = w
					continue
				}
				break
			}
		}
		for si, s := range b.Succs {
			label := ""
			onTrue := (si == 0) != flip2
			cond := cond2
			if cond2 != nil {
				if kv, isConst := constBool(cond2); isConst && len(b.Succs) == 2 {
					if kv != onTrue {
						continue // the inlined callee returned a constant: only one branch is feasible
					}
					// predicates recognise the call, not the constant it returned on this path
					cond, onTrue = cond1, (si == 0) != flip1
				}
				if isT, nilOnTrue := t.nilTest(cond); isT {
					if nilOnTrue == onTrue {
						label = "nil"
					} else {
						label = "nonnil"
					}
				}
			}
			if o.edge != nil && o.edge(b, s, label, cond, onTrue, t) {
				continue
			}
			if o.edge != nil && cond1 != nil && cond1 != cond {
				// the same edge seen through the un-substituted condition (e.g. `if helper()`):
				// predicates that recognise the helper call itself still apply
				if o.edge(b, s, "", cond1, (si == 0) != flip1, t) {
					continue
				}
			}
			nt := t.clone()
			if cond != nil {
				// constant results of inlined callees correlate only the first branch after the return;
				// forgetting them afterwards keeps the state space small
				for k, v := range nt.subst {
					if _, isConst := v.(*ssa.Const); isConst {
						delete(nt.subst, k)
					}
				}
			}
			nt.enter(b, s)
			work = append(work, item{p: point{s, 0}, t: nt, stack: it.stack})
		}
	}
	return true
}

// walkFrame is one inlined call on the walker's stack.
type walkFrame struct {
	call *ssa.Call
	ret  point
}

// onStack: descending into h would recurse.
func onStack(st []walkFrame, h *ssa.Function, cur *ssa.Function) bool {
	if h == cur {
		return true
	}
	for _, f := range st {
		if f.call.Call.StaticCallee() == h || f.call.Parent() == h {
			return true
		}
	}
	return false
}

// bindResults records, on return from an inlined callee, what the call's
// value (or the Extracts of its tuple) stands for, and keeps the tracked
// value tracked across the return.
func bindResults(t *tracker, call *ssa.Call, r *ssa.Return) {
	if len(r.Results) == 1 {
		rv := t.resolve(r.Results[0])
		if _, isConst := rv.(*ssa.Const); isConst {
			// `return m.isClosed()` whose callee was inlined and answered with a constant on this path: keep the
			// intermediate value in the chain, so that edge predicates still recognise the call that produced it
			if _, direct := r.Results[0].(*ssa.Const); !direct {
				if _, bound := t.subst[r.Results[0]]; bound {
					rv = r.Results[0]
				}
			}
		}
		t.subst[call] = rv
		if t.vals[r.Results[0]] || t.vals[rv] {
			t.vals[call] = true
		}
		return
	}
	if refs := call.Referrers(); refs != nil {
		for _, ref := range *refs {
			if e, ok := ref.(*ssa.Extract); ok && e.Index < len(r.Results) {
				rv := t.resolve(r.Results[e.Index])
				t.subst[e] = rv
				if t.vals[r.Results[e.Index]] || t.vals[rv] {
					t.vals[e] = true
				}
			}
		}
	}
}

// after returns the point just after instruction i.
func after(i ssa.Instruction) point { return point{i.Block(), instrIndex(i) + 1} }

// at returns the point just before instruction i.
func at(i ssa.Instruction) point { return point{i.Block(), instrIndex(i)} }

func entryPoint(f *ssa.Function) point { return point{f.Blocks[0], 0} }

// guardedBySuccess reports whether every CFG path from call k to instruction
// s passes the "error is nil" edge of a test of k's error result. When not,
// it returns false (some path reaches s with k's error unchecked or non-nil).
func guardedBySuccess(k *ssa.Call, s ssa.Instruction) bool {
	idx := errResultIndex(k.Call.Signature())
	if idx < 0 {
		return false
	}
	var seed []ssa.Value
	if k.Call.Signature().Results().Len() == 1 {
		seed = []ssa.Value{k}
	}
	reached := false
	walk(after(k), walkOpts{
		origin: k, originIdx: idx, seed: seed,
		visit: func(i ssa.Instruction, t *tracker) bool {
			if i == s {
				reached = true
				return true
			}
			if i == ssa.Instruction(k) {
				return true // looped back to the call: a new attempt
			}
			return false
		},
		edge: func(from, to *ssa.BasicBlock, label string, cond ssa.Value, onTrue bool, _ *tracker) bool {
			return label == "nil"
		},
	})
	return !reached
}

// mustPrecede reports whether every path from the function entry to s
// passes an instruction satisfying via (i.e. via "dominates" s at
// instruction granularity), ignoring edges for which skipEdge is true.
func mustPrecede(f *ssa.Function, s ssa.Instruction, via func(ssa.Instruction) bool,
	skipEdge func(from, to *ssa.BasicBlock, cond ssa.Value, onTrue bool) bool) bool {
	reached := false
	walk(entryPoint(f), walkOpts{
		visit: func(i ssa.Instruction, t *tracker) bool {
			if i == s {
				reached = true
				return true
			}
			return via(i)
		},
		edge: func(from, to *ssa.BasicBlock, label string, cond ssa.Value, onTrue bool, _ *tracker) bool {
			return skipEdge != nil && skipEdge(from, to, cond, onTrue)
		},
	})
	return !reached
}

// reachableFrom reports whether target is reachable from the point after
// src without passing an instruction for which stop is true.
func reachableFrom(src ssa.Instruction, target func(ssa.Instruction) bool, stop func(ssa.Instruction) bool,
	skipEdge func(from, to *ssa.BasicBlock, cond ssa.Value, onTrue bool) bool) (ssa.Instruction, bool) {
	var hit ssa.Instruction
	walk(after(src), walkOpts{
		visit: func(i ssa.Instruction, t *tracker) bool {
			if hit != nil {
				return true
			}
			if target(i) {
				hit = i
				return true
			}
			return stop != nil && stop(i)
		},
		edge: func(from, to *ssa.BasicBlock, label string, cond ssa.Value, onTrue bool, _ *tracker) bool {
			return hit != nil || (skipEdge != nil && skipEdge(from, to, cond, onTrue))
		},
	})
	return hit, hit != nil
}

// ---------------------------------------------------------------- value provenance

// origins walks backwards from v through phis, local cells (alloc
// store/load), conversions and extracts, returning the leaf values.
func origins(v ssa.Value) []ssa.Value {
	seen := map[ssa.Value]bool{}
	var out []ssa.Value
	var rec func(v ssa.Value)
	rec = func(v ssa.Value) {
		if v == nil || seen[v] {
			return
		}
		seen[v] = true
		switch x := v.(type) {
		case *ssa.Phi:
			for _, e := range x.Edges {
				rec(e)
			}
		case *ssa.ChangeInterface:
			rec(x.X)
		case *ssa.MakeInterface:
			rec(x.X)
		case *ssa.ChangeType:
			rec(x.X)
		case *ssa.Convert:
			rec(x.X)
		case *ssa.UnOp:
			if x.Op == token.MUL {
				if a, ok := x.X.(*ssa.Alloc); ok {
					if lv := localStoreBefore(x, a); lv != nil {
						rec(lv)
						return
					}
					n := 0
					if refs := a.Referrers(); refs != nil {
						for _, r := range *refs {
							if st, ok := r.(*ssa.Store); ok && st.Addr == a {
								rec(st.Val)
								n++
							}
						}
					}
					if n > 0 {
						return
					}
				}
				if fv, ok := x.X.(*ssa.FreeVar); ok {
					// captured variable: look at the stores in the parent chain
					for _, st := range freeVarStores(fv) {
						rec(st.Val)
					}
					out = append(out, v)
					return
				}
			}
			out = append(out, v)
		default:
			out = append(out, v)
		}
	}
	rec(v)
	return out
}

// freeVarStores finds, for a closure's free variable, the stores made to the
// captured cell in the enclosing function and in sibling closures.
func freeVarStores(fv *ssa.FreeVar) []*ssa.Store {
	fn := fv.Parent()
	parent := fn.Parent()
	if parent == nil {
		return nil
	}
	idx := -1
	for k, v := range fn.FreeVars {
		if v == fv {
			idx = k
		}
	}
	if idx < 0 {
		return nil
	}
	var cell ssa.Value
	eachInstr(parent, func(i ssa.Instruction) {
		if mc, ok := i.(*ssa.MakeClosure); ok && mc.Fn == fn && idx < len(mc.Bindings) {
			cell = mc.Bindings[idx]
		}
	})
	if cell == nil {
		return nil
	}
	return storesToCell(parent, cell)
}

// storesToCell lists stores to a captured cell in f and in f's closures.
func storesToCell(f *ssa.Function, cell ssa.Value) []*ssa.Store {
	var out []*ssa.Store
	if refs := cell.Referrers(); refs != nil {
		for _, r := range *refs {
			switch r := r.(type) {
			case *ssa.Store:
				if r.Addr == cell {
					out = append(out, r)
				}
			case *ssa.MakeClosure:
				for k, b := range r.Bindings {
					if b == cell {
						cf := r.Fn.(*ssa.Function)
						if k < len(cf.FreeVars) {
							out = append(out, storesViaFreeVar(cf, cf.FreeVars[k])...)
						}
					}
				}
			}
		}
	}
	return out
}

func storesViaFreeVar(f *ssa.Function, fv *ssa.FreeVar) []*ssa.Store {
	var out []*ssa.Store
	if refs := fv.Referrers(); refs != nil {
		for _, r := range *refs {
			switch r := r.(type) {
			case *ssa.Store:
				if r.Addr == fv {
					out = append(out, r)
				}
			case *ssa.MakeClosure:
				for k, b := range r.Bindings {
					if b == fv {
						cf := r.Fn.(*ssa.Function)
						if k < len(cf.FreeVars) {
							out = append(out, storesViaFreeVar(cf, cf.FreeVars[k])...)
						}
					}
				}
			}
		}
	}
	return out
}

// accessPath renders an SSA value as a source-like access path where that
// is possible: parameters and free variables by name, field loads as
// base.field, map lookups as base[key], results of calls as callee().
func accessPath(v ssa.Value) string {
	return accessPathN(v, 0)
}

func accessPathN(v ssa.Value, depth int) string {
	if depth > 8 {
		return "…"
	}
	switch x := v.(type) {
	case *ssa.Parameter:
		return x.Name()
	case *ssa.FreeVar:
		return x.Name()
	case *ssa.Global:
		return x.Name()
	case *ssa.Const:
		if x.Value == nil {
			return "nil"
		}
		return x.Value.ExactString()
	case *ssa.Alloc:
		if x.Comment != "" {
			return x.Comment
		}
		return "new"
	case *ssa.FieldAddr:
		fv := fieldAddrVar(x)
		if fv != nil {
			return accessPathN(x.X, depth+1) + "." + fv.Name()
		}
	case *ssa.Field:
		fv := fieldVar(x)
		if fv != nil {
			return accessPathN(x.X, depth+1) + "." + fv.Name()
		}
	case *ssa.UnOp:
		if x.Op == token.MUL {
			return accessPathN(x.X, depth+1)
		}
	case *ssa.Lookup:
		return accessPathN(x.X, depth+1) + "[" + accessPathN(x.Index, depth+1) + "]"
	case *ssa.Extract:
		return accessPathN(x.Tuple, depth+1) + fmt.Sprintf("#%d", x.Index)
	case *ssa.Call:
		if f := x.Call.StaticCallee(); f != nil {
			return f.Name() + "()"
		}
		if x.Call.IsInvoke() {
			return accessPathN(x.Call.Value, depth+1) + "." + x.Call.Method.Name() + "()"
		}
		return "call()"
	case *ssa.Phi:
		var parts []string
		for _, e := range x.Edges {
			parts = append(parts, accessPathN(e, depth+1))
		}
		return "φ(" + strings.Join(parts, "|") + ")"
	case *ssa.Next:
		return "range(" + accessPathN(x.Iter, depth+1) + ")"
	case *ssa.Range:
		return accessPathN(x.X, depth+1)
	case *ssa.TypeAssert:
		return accessPathN(x.X, depth+1) + ".(" + types.TypeString(x.AssertedType, shortQual) + ")"
	case *ssa.MakeInterface:
		return accessPathN(x.X, depth+1)
	case *ssa.ChangeInterface:
		return accessPathN(x.X, depth+1)
	case *ssa.IndexAddr:
		return accessPathN(x.X, depth+1) + "[" + accessPathN(x.Index, depth+1) + "]"
	case *ssa.Slice:
		return accessPathN(x.X, depth+1) + "[:]"
	case *ssa.BinOp:
		return "(" + accessPathN(x.X, depth+1) + " " + x.Op.String() + " " + accessPathN(x.Y, depth+1) + ")"
	case *ssa.Convert:
		return accessPathN(x.X, depth+1)
	case *ssa.ChangeType:
		return accessPathN(x.X, depth+1)
	case *ssa.MakeSlice:
		return "make(slice)"
	case *ssa.MakeMap:
		return "make(map)"
	case *ssa.MakeChan:
		return "make(chan)"
	case *ssa.MakeClosure:
		return "closure " + x.Fn.Name()
	case *ssa.Function:
		return x.Name()
	case *ssa.Builtin:
		return x.Name()
	}
	// never an SSA register name: obligation keys must not change when unrelated code moves
	return "<" + strings.TrimPrefix(fmt.Sprintf("%T", v), "*ssa.") + ">"
}

// isFreshIn: v is a value allocated in its own function (composite literal,
// new) – the object cannot be visible to anyone else before it is stored
// somewhere shared.
func isFreshAlloc(v ssa.Value) bool {
	switch x := v.(type) {
	case *ssa.Alloc:
		return true
	case *ssa.Phi:
		for _, e := range x.Edges {
			if !isFreshAlloc(e) {
				return false
			}
		}
		return len(x.Edges) > 0
	}
	return false
}

// backSlice walks backwards from v through phis, extracts, conversions,
// struct field selections and local cells (including struct temporaries),
// calling visit on every value met; it stops early when visit returns true
// and reports whether it did.
func backSlice(v ssa.Value, visit func(ssa.Value) bool) bool {
	seen := map[ssa.Value]bool{}
	var rec func(v ssa.Value) bool
	storesTo := func(cell ssa.Value) []ssa.Value {
		var out []ssa.Value
		if refs := cell.Referrers(); refs != nil {
			for _, r := range *refs {
				switch r := r.(type) {
				case *ssa.Store:
					if r.Addr == cell {
						out = append(out, r.Val)
					}
				case *ssa.FieldAddr:
					if rr := r.Referrers(); rr != nil {
						for _, u := range *rr {
							if st, ok := u.(*ssa.Store); ok && st.Addr == r {
								out = append(out, st.Val)
							}
						}
					}
				case *ssa.IndexAddr:
					if rr := r.Referrers(); rr != nil {
						for _, u := range *rr {
							if st, ok := u.(*ssa.Store); ok && st.Addr == r {
								out = append(out, st.Val)
							}
						}
					}
				}
			}
		}
		return out
	}
	rec = func(v ssa.Value) bool {
		if v == nil || seen[v] {
			return false
		}
		seen[v] = true
		if visit(v) {
			return true
		}
		switch x := v.(type) {
		case *ssa.Phi:
			for _, e := range x.Edges {
				if rec(e) {
					return true
				}
			}
		case *ssa.Extract:
			return rec(x.Tuple)
		case *ssa.Field:
			return rec(x.X)
		case *ssa.ChangeInterface:
			return rec(x.X)
		case *ssa.MakeInterface:
			return rec(x.X)
		case *ssa.ChangeType:
			return rec(x.X)
		case *ssa.Convert:
			return rec(x.X)
		case *ssa.TypeAssert:
			return rec(x.X)
		case *ssa.Slice:
			return rec(x.X)
		case *ssa.Alloc:
			// a container (varargs array, struct temporary): what was stored into it
			for _, sv := range storesTo(x) {
				if rec(sv) {
					return true
				}
			}
		case *ssa.UnOp:
			if x.Op != token.MUL {
				return false
			}
			switch a := x.X.(type) {
			case *ssa.Alloc:
				if lv := localStoreBefore(x, a); lv != nil {
					return rec(lv)
				}
				for _, sv := range storesTo(a) {
					if rec(sv) {
						return true
					}
				}
			case *ssa.FieldAddr:
				if base, ok := a.X.(*ssa.Alloc); ok {
					for _, sv := range storesTo(base) {
						if rec(sv) {
							return true
						}
					}
				}
			case *ssa.FreeVar:
				for _, st := range freeVarStores(a) {
					if rec(st.Val) {
						return true
					}
				}
			}
		}
		return false
	}
	return rec(v)
}

// localStoreBefore: the value of the nearest store to cell that precedes the
// load in the same basic block (the defer-spilled return idiom
// `*t0 = v; rundefers; t = *t0; return t`), or nil.
func localStoreBefore(load *ssa.UnOp, cell ssa.Value) ssa.Value {
	b := load.Block()
	if b == nil {
		return nil
	}
	idx := -1
	for k, i := range b.Instrs {
		if i == ssa.Instruction(load) {
			idx = k
			break
		}
	}
	for k := idx - 1; k >= 0; k-- {
		if st, ok := b.Instrs[k].(*ssa.Store); ok && st.Addr == cell {
			return st.Val
		}
	}
	return nil
}

// originsDeep is origins() made interprocedural for helper extraction: a
// parameter of an unexported function is replaced by the arguments at its
// call sites, and the result of a moss callee by what the callee returns
// (with its parameters bound to this call's arguments). Bounded depth.
func originsDeep(c *Ctx, v ssa.Value) []ssa.Value { return originsDeepIn(c, v, nil) }

// originsDeepIn: like originsDeep, but the parameters of home are leaves (not lifted to home's callers).
func originsDeepIn(c *Ctx, v ssa.Value, home *ssa.Function) []ssa.Value {
	var out []ssa.Value
	seen := map[ssa.Value]bool{}
	var rec func(v ssa.Value, depth int, bind map[ssa.Value]ssa.Value)
	rec = func(v ssa.Value, depth int, bind map[ssa.Value]ssa.Value) {
		for _, og := range origins(v) {
			if b, ok := bind[og]; ok {
				rec(b, depth, nil)
				continue
			}
			if seen[og] {
				continue
			}
			seen[og] = true
			if depth < 3 {
				// a variable captured from the enclosing function: what the parent stored into it
				var fvar *ssa.FreeVar
				if ld, ok := og.(*ssa.UnOp); ok && ld.Op == token.MUL {
					fvar, _ = ld.X.(*ssa.FreeVar)
				} else if fv, ok := og.(*ssa.FreeVar); ok {
					fvar = fv
				}
				if fvar != nil {
					if vals := capturedCellValues(fvar); len(vals) > 0 {
						for _, w := range vals {
							rec(w, depth+1, nil)
						}
						continue
					}
				}
				if p, ok := og.(*ssa.Parameter); ok {
					f := p.Parent()
					if f != nil && f != home && f.Pkg == c.Moss && !isExportedRoot(f) {
						idx := -1
						for k, q := range f.Params {
							if q == p {
								idx = k
							}
						}
						sites := c.Callers(f)
						lifted := false
						for _, s := range sites {
							if s.Instr.Common().StaticCallee() != f || s.Caller == f {
								continue
							}
							args := s.Instr.Common().Args
							if idx >= 0 && idx < len(args) {
								lifted = true
								rec(args[idx], depth+1, nil)
							}
						}
						if lifted {
							continue
						}
					}
				}
				var call *ssa.Call
				ridx := 0
				switch x := og.(type) {
				case *ssa.Call:
					call = x
				case *ssa.Extract:
					if cl, ok := x.Tuple.(*ssa.Call); ok {
						call, ridx = cl, x.Index
					}
				}
				if call != nil {
					if h := call.Call.StaticCallee(); h != nil && h.Pkg == c.Moss && h.Blocks != nil && h != call.Parent() && !isExportedRoot(h) && len(h.Blocks) <= 12 {
						nb := map[ssa.Value]ssa.Value{}
						for k, p := range h.Params {
							if k < len(call.Call.Args) {
								nb[p] = call.Call.Args[k]
							}
						}
						n := 0
						eachInstr(h, func(i ssa.Instruction) {
							if r, ok := i.(*ssa.Return); ok && ridx < len(r.Results) {
								n++
								rec(r.Results[ridx], depth+1, nb)
							}
						})
						if n > 0 {
							continue
						}
					}
				}
			}
			out = append(out, og)
		}
	}
	rec(v, 0, nil)
	return out
}

// capturedCellValues: the values the enclosing function stores into the variable that the closure captured as fv
// (or the value itself when it is captured by value).
func capturedCellValues(fv *ssa.FreeVar) []ssa.Value {
	g := fv.Parent()
	if g == nil || g.Parent() == nil {
		return nil
	}
	idx := -1
	for k, v := range g.FreeVars {
		if v == fv {
			idx = k
		}
	}
	if idx < 0 {
		return nil
	}
	var out []ssa.Value
	eachInstr(g.Parent(), func(i ssa.Instruction) {
		mc, ok := i.(*ssa.MakeClosure)
		if !ok || mc.Fn != ssa.Value(g) || idx >= len(mc.Bindings) {
			return
		}
		b := mc.Bindings[idx]
		cell, isCell := b.(*ssa.Alloc)
		if !isCell {
			if pfv, isFV := b.(*ssa.FreeVar); isFV {
				out = append(out, capturedCellValues(pfv)...)
			} else {
				out = append(out, b)
			}
			return
		}
		if refs := cell.Referrers(); refs != nil {
			for _, r := range *refs {
				if st, isSt := r.(*ssa.Store); isSt && st.Addr == ssa.Value(cell) {
					out = append(out, st.Val)
				}
			}
		}
	})
	return out
}
