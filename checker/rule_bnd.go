package main

// BND-1: an index chosen for one node of the collection tree is only applied
// to another node's list after it was bounded by that list's length.
//
// Found as D26: the splice point of a partial compaction is computed from the
// top-level collection's segment list and was forwarded unchanged by the
// recursive walkers mergeSegStacks / spliceFooter to every child collection,
// where it sliced the child's (possibly shorter) list: the persister goroutine
// panicked with "slice bounds out of range".

import (
	"fmt"
	"go/token"
	"go/types"
	"strings"

	"golang.org/x/tools/go/ssa"
)

func init() {
	register(&Rule{
		ID: "BND-1",
		Doc: "A self-recursive function that forwards an integer parameter P to its recursive call (a tree walker handing one index down to every child) slices a list of its own subject " +
			"with P only after P was bounded by the length of THAT list: on every path from the entry to the slice expression either an edge establishes P <= len(list) (list = the same field of the same base), " +
			"or the bound was replaced by len(list) (the clamp `if P > len(x) { P = len(x) }`). An index that is valid for the parent's list says nothing about a child's list. " +
			"Decides the shape (a bound check against the right list on every path), not the arithmetic of the index.",
		Props: []string{"C07", "C11"},
		Floor: 2,
		Run:   ruleBnd1,
	})
}

// lenOfSameList: v is len(x) (or cap-free arithmetic thereof is NOT accepted) where x loads the same field from the same base as list.
func lenOfSameList(v ssa.Value, list ssa.Value) bool {
	call, ok := v.(*ssa.Call)
	if !ok {
		return false
	}
	b, isB := call.Call.Value.(*ssa.Builtin)
	if !isB || b.Name() != "len" || len(call.Call.Args) != 1 {
		return false
	}
	return sameList(call.Call.Args[0], list)
}

func sameList(a, b ssa.Value) bool {
	if a == b {
		return true
	}
	fa, ba := loadedField(a)
	fb, bb := loadedField(b)
	if fa != nil && fa == fb {
		if ba == bb {
			return true
		}
		// the base itself may be re-loaded from the same field of the same object
		return sameList(ba, bb)
	}
	return false
}

func ruleBnd1(c *Ctx) []*Ob {
	o := newObs(c, "BND-1")
	for _, f := range c.Funcs {
		if f.Signature == nil || len(f.Blocks) == 0 {
			continue
		}
		// integer parameters forwarded to a self-recursive call
		var fwd []*ssa.Parameter
		for idx, p := range f.Params {
			bt, isBasic := p.Type().Underlying().(*types.Basic)
			if !isBasic || bt.Info()&types.IsInteger == 0 {
				continue
			}
			forwarded := false
			for _, k := range callsToFn(f, f) {
				if idx >= len(k.Call.Args) {
					continue
				}
				for _, og := range origins(k.Call.Args[idx]) {
					if og == ssa.Value(p) {
						forwarded = true
					}
				}
			}
			if forwarded {
				fwd = append(fwd, p)
			}
		}
		if len(fwd) == 0 {
			continue
		}
		fn := c.fname(f)
		for _, p := range fwd {
			n := 0
			eachInstr(f, func(i ssa.Instruction) {
				sl, isS := i.(*ssa.Slice)
				if !isS {
					return
				}
				// the sliced value must be a list reached through a field (the subject's list), not a local buffer
				if fv, _ := loadedField(sl.X); fv == nil {
					return
				}
				var bounds []ssa.Value
				for _, bnd := range []ssa.Value{sl.Low, sl.High, sl.Max} {
					if bnd == nil {
						continue
					}
					for _, og := range origins(bnd) {
						if og == ssa.Value(p) {
							bounds = append(bounds, bnd)
							break
						}
					}
				}
				for _, bnd := range bounds {
					n++
					unbounded := false
					walk(entryPoint(f), walkOpts{
						noInline: true,
						seed:     []ssa.Value{p},
						visit: func(j ssa.Instruction, t *tracker) bool {
							if j == ssa.Instruction(sl) {
								if t.vals[bnd] {
									unbounded = true
								}
								return true
							}
							return unbounded
						},
						edge: func(from, to *ssa.BasicBlock, label string, cond ssa.Value, onTrue bool, t *tracker) bool {
							b, isB := cond.(*ssa.BinOp)
							if !isB {
								return false
							}
							// relation "tracked REL len(list)" on this edge
							var op token.Token
							switch {
							case t.vals[b.X] && lenOfSameList(b.Y, sl.X):
								op = b.Op
							case t.vals[b.Y] && lenOfSameList(b.X, sl.X):
								op = flipCmp(b.Op)
							default:
								return false
							}
							if !onTrue {
								op = negCmp(op)
							}
							// the edge proves P <= len(list) (or P < len(list)): the path is safe, stop following it
							return op == token.LEQ || op == token.LSS || op == token.EQL
						},
					})
					why := "on every path the bound is len(" + accessPath(sl.X) + ") or was compared with it"
					if unbounded {
						why = fmt.Sprintf("a path from the entry reaches the slice expression with the raw parameter %s as a bound of %s without a test against len(%s): "+
							"the index was chosen from the parent's list and is forwarded to every child, whose list can be shorter (slice bounds out of range in the background goroutine)", p.Name(), accessPath(sl.X), accessPath(sl.X))
					}
					lf, _ := loadedField(sl.X)
					o.add(fn, "slice "+c.FieldOwner(lf)+"."+lf.Name()+" by parameter "+p.Name(), c.instrPos(sl), !unbounded, why)
				}
			})
			_ = n
		}
	}
	return o.list
}

func flipCmp(op token.Token) token.Token {
	switch op {
	case token.LSS:
		return token.GTR
	case token.GTR:
		return token.LSS
	case token.LEQ:
		return token.GEQ
	case token.GEQ:
		return token.LEQ
	}
	return op
}

func negCmp(op token.Token) token.Token {
	switch op {
	case token.LSS:
		return token.GEQ
	case token.GTR:
		return token.LEQ
	case token.LEQ:
		return token.GTR
	case token.GEQ:
		return token.LSS
	case token.EQL:
		return token.NEQ
	case token.NEQ:
		return token.EQL
	}
	return op
}

// ---------------------------------------------------------------- BND-2

func init() {
	register(&Rule{
		ID: "BND-2",
		Doc: "Sibling walkers that receive the same index agree on what they hand to the children: when one function passes the same value as the forwarded index parameter of two or more recursive walkers " +
			"(compact hands partialCompactStart to mergeSegStacks, which decides which segments are rewritten, and to spliceFooter, which decides which locations are retained), " +
			"all of them forward to their recursive call the same kind of value - the raw parameter, or the parameter as bounded by their own list. " +
			"If one forwards the clamped value and the other the raw one, a grandchild below a short child is spliced at two different points: segments in between are neither retained nor rewritten.",
		Props: []string{"C07", "C11"},
		Floor: 1,
		Run:   ruleBnd2,
	})
}

// forwardedIntParams: the integer parameters f passes to a call of itself, with the arguments passed.
func forwardedIntParams(f *ssa.Function) map[*ssa.Parameter][]ssa.Value {
	out := map[*ssa.Parameter][]ssa.Value{}
	for idx, p := range f.Params {
		bt, isBasic := p.Type().Underlying().(*types.Basic)
		if !isBasic || bt.Info()&types.IsInteger == 0 {
			continue
		}
		for _, k := range callsToFn(f, f) {
			if idx >= len(k.Call.Args) {
				continue
			}
			for _, og := range origins(k.Call.Args[idx]) {
				if og == ssa.Value(p) {
					out[p] = append(out[p], k.Call.Args[idx])
					break
				}
			}
		}
	}
	return out
}

func ruleBnd2(c *Ctx) []*Ob {
	o := newObs(c, "BND-2")
	type member struct {
		f    *ssa.Function
		p    *ssa.Parameter
		kind string
		pos  string
	}
	groups := map[string][]member{}
	var order []string
	for _, f := range c.Funcs {
		fw := forwardedIntParams(f)
		for p, args := range fw {
			pidx := -1
			for i, q := range f.Params {
				if q == p {
					pidx = i
				}
			}
			kind := "raw"
			for _, a := range args {
				for _, og := range origins(a) {
					if _, isLen := isBuiltinCall(og, "len"); isLen {
						kind = "bounded by the walker's own list"
					}
				}
			}
			for _, s := range c.Callers(f) {
				if s.Caller == f || root(s.Caller) == f {
					continue
				}
				cc := s.Instr.Common()
				if pidx >= len(cc.Args) {
					continue
				}
				key := c.fname(s.Caller) + " passes " + accessPath(cc.Args[pidx])
				if _, seen := groups[key]; !seen {
					order = append(order, key)
				}
				groups[key] = append(groups[key], member{f, p, kind, c.pos(f.Pos())})
			}
		}
	}
	for _, key := range order {
		ms := groups[key]
		if len(ms) < 2 {
			continue
		}
		agree := true
		for _, m := range ms {
			if m.kind != ms[0].kind {
				agree = false
			}
		}
		for _, m := range ms {
			why := "all walkers fed by this value forward the index " + m.kind
			if !agree {
				var others []string
				for _, x := range ms {
					if x.f != m.f {
						others = append(others, c.fname(x.f)+" forwards it "+x.kind)
					}
				}
				why = "forwards the index " + m.kind + " to its children while " + strings.Join(others, ", ") +
					" (" + key + " to all of them): below a child whose list is shorter than the index the walkers splice a grandchild at different points - segments in between are neither retained nor rewritten"
			}
			o.add(c.fname(m.f), "index "+m.p.Name()+" forwarded to the children like its siblings", m.pos, agree, why)
		}
	}
	return o.list
}
