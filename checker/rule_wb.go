package main

// R-WB: write-back hand-over (C13, C06) and R-HIST: history links (C12).

import (
	"go/token"
	"go/types"

	"golang.org/x/tools/go/ssa"
)

func init() {
	register(&Rule{
		ID: "R-WB",
		Doc: "Write-back hand-over: in mergerNotifyPersister the store stackDirtyBase = <non-nil> is reachable only through the true edge of stackDirtyBase == nil " +
			"(a stack still being offered is never replaced). In runPersister every store to stackDirtyBase, stackClean and lowerLevelSnapshot is preceded by, and behind the " +
			"nil-error edge of, the LowerLevelUpdate call (after a failure the same stack stays and is offered again), and the value handed to LowerLevelUpdate is the one " +
			"loaded from stackDirtyBase.",
		Props: []string{"C13", "C06"},
		Floor: 3,
		Run:   ruleWB,
	})
}

// nilFieldEdge: skipEdge predicate true on the edge where field fv (loaded
// through any base) is nil (wantNil) / non-nil (!wantNil).
func nilFieldEdge(fv *types.Var, wantNil bool) func(from, to *ssa.BasicBlock, cond ssa.Value, onTrue bool) bool {
	return func(from, to *ssa.BasicBlock, cond ssa.Value, onTrue bool) bool {
		b, ok := cond.(*ssa.BinOp)
		if !ok || (b.Op != token.EQL && b.Op != token.NEQ) {
			return false
		}
		var x ssa.Value
		if isNilConst(b.Y) {
			x = b.X
		} else if isNilConst(b.X) {
			x = b.Y
		} else {
			return false
		}
		if f, _ := loadedField(x); f != fv {
			return false
		}
		nilOnTrue := b.Op == token.EQL
		return (nilOnTrue == onTrue) == wantNil
	}
}

func neverInstr(ssa.Instruction) bool { return false }

func ruleWB(c *Ctx) []*Ob {
	o := newObs(c, "R-WB")
	fBase := c.Field("collection", "stackDirtyBase")
	fClean := c.Field("collection", "stackClean")
	fLL := c.Field("collection", "lowerLevelSnapshot")

	// the hand-over store: wherever it lives (mergerNotifyPersister today, a LOCKED helper of it tomorrow)
	mnp := c.Fn("(*collection).mergerNotifyPersister")
	n := 0
	for _, f := range c.Funcs {
		if c.isHarness(f) {
			continue
		}
		for _, a := range fieldAccesses(f, func(v *types.Var) bool { return v == fBase }) {
			if a.Kind != "store" || isNilConst(a.Val) || isFreshAlloc(a.Base) {
				continue
			}
			n++
			ok := mustPrecede(f, a.Instr, neverInstr, nilFieldEdge(fBase, true))
			if !ok {
				// an unguarded helper whose every call site is guarded
				sites := c.Callers(f)
				all := len(sites) > 0
				for _, s := range sites {
					if !mustPrecede(s.Caller, s.Instr, neverInstr, nilFieldEdge(fBase, true)) {
						all = false
					}
				}
				ok = all
			}
			why := "the hand-over store is reachable only when stackDirtyBase == nil"
			if !ok {
				why = "stackDirtyBase can be overwritten while the persister is still offering it: the replaced stack's mutations are never handed to LowerLevelUpdate"
			}
			o.add(c.fname(f), "store stackDirtyBase = "+accessPath(a.Val), c.instrPos(a.Instr), ok, why)
		}
	}
	if n == 0 {
		o.add(c.fname(mnp), "store stackDirtyBase", c.pos(mnp.Pos()), false, "anchor lost: nothing hands a stack to the persister any more")
	}

	rp := c.Fn("(*collection).runPersister")
	rpn := c.fname(rp)
	var llu []*ssa.Call
	eachInstr(rp, func(i ssa.Instruction) {
		if call, ok := i.(*ssa.Call); ok && isFieldFuncCall(call, "CollectionOptions", "LowerLevelUpdate") {
			llu = append(llu, call)
		}
	})
	if len(llu) != 1 {
		o.add(rpn, "call LowerLevelUpdate", c.pos(rp.Pos()), false, "anchor lost: runPersister must call LowerLevelUpdate exactly once per round")
		return o.list
	}
	k := llu[0]
	// the argument is what was loaded from stackDirtyBase
	argOK := false
	if len(k.Call.Args) == 1 {
		for _, og := range origins(k.Call.Args[0]) {
			if f, _ := loadedField(og); f == fBase {
				argOK = true
			}
		}
	}
	whyArg := "the snapshot handed down is the stack loaded from stackDirtyBase"
	if !argOK {
		whyArg = "the value handed to LowerLevelUpdate is not the stack loaded from stackDirtyBase (" + accessPath(k.Call.Args[0]) + ")"
	}
	o.add(rpn, "LowerLevelUpdate argument", c.instrPos(k), argOK, whyArg)
	for _, a := range fieldAccesses(rp, func(v *types.Var) bool { return v == fBase || v == fClean || v == fLL }) {
		if a.Kind != "store" {
			continue
		}
		ok, w := precededAndGuardedBy(rp, k, a.Instr)
		why := "behind the nil-error edge of LowerLevelUpdate"
		if !ok {
			why = "LowerLevelUpdate: " + w + " - after a failed update the dirty base would be dropped (its mutations are lost) or the lower level replaced"
		}
		o.add(rpn, "store "+a.Field.Name()+" = "+accessPath(a.Val), c.instrPos(a.Instr), ok, why)
	}
	return o.list
}
