package main

// SORT-4: an unticketed sort never runs on a goroutine of its own (C17, C01).

import (
	"go/token"

	"golang.org/x/tools/go/ssa"
)

func init() {
	register(&Rule{
		ID: "SORT-4",
		Doc: "Sorting in the background needs the ticket: a sorter (a moss function that hands a segment to sort.Sort / sort.Stable) is reached from the target of a `go` statement only through a " +
			"ticket holder - a function in which the call of the sorter is dominated by a receive from segment.needSorterCh (RequestSort). The synchronous pre-publication sort of " +
			"ExecuteBatch (batch.doSort on the caller's goroutine, before the batch is installed) needs no ticket; the same function started with `go` keeps sorting after the batch was " +
			"published, concurrently with the merger or a reader that takes the ticket and sorts the same segment.",
		Props: []string{"C17", "C01"},
		Floor: 1,
		Run:   ruleSort4,
	})
}

func ruleSort4(c *Ctx) []*Ob {
	o := newObs(c, "SORT-4")
	fTicket := c.Field("segment", "needSorterCh")
	// sorters: functions calling sort.Sort / sort.Stable
	callsSort := func(f *ssa.Function) ssa.Instruction {
		var at ssa.Instruction
		eachInstr(f, func(i ssa.Instruction) {
			if call, ok := i.(*ssa.Call); ok && (isStaticCall(call, "sort", "Sort") || isStaticCall(call, "sort", "Stable")) {
				at = i
			}
		})
		return at
	}
	sorter := map[*ssa.Function]bool{}
	for _, f := range c.Funcs {
		if !c.isHarness(f) && callsSort(f) != nil {
			sorter[f] = true
		}
	}
	// ticket holders: every call of a sorter inside them is dominated by a receive from needSorterCh
	holder := map[*ssa.Function]bool{}
	for _, f := range c.Funcs {
		var recvs []ssa.Instruction
		eachInstr(f, func(i ssa.Instruction) {
			if u, ok := i.(*ssa.UnOp); ok && u.Op == token.ARROW {
				if fv, _ := loadedField(u.X); fv == fTicket {
					recvs = append(recvs, i)
				}
			}
		})
		if len(recvs) == 0 {
			continue
		}
		all, n := true, 0
		eachInstr(f, func(i ssa.Instruction) {
			call, ok := i.(*ssa.Call)
			if !ok {
				return
			}
			if h := call.Call.StaticCallee(); h != nil && sorter[h] {
				n++
				if !mustPrecede(f, i, func(j ssa.Instruction) bool {
					for _, r := range recvs {
						if j == r {
							return true
						}
					}
					return false
				}, nil) {
					all = false
				}
			}
		})
		if n > 0 && all {
			holder[f] = true
		}
	}
	// from every go target: is a sorter reachable without passing a holder?
	var reach func(f *ssa.Function, seen map[*ssa.Function]bool, chain []string) []string
	reach = func(f *ssa.Function, seen map[*ssa.Function]bool, chain []string) []string {
		if f == nil || seen[f] || f.Pkg != c.Moss || holder[f] {
			return nil
		}
		seen[f] = true
		chain = append(chain, c.fname(f))
		if sorter[f] {
			return chain
		}
		var found []string
		eachInstr(f, func(i ssa.Instruction) {
			if found != nil {
				return
			}
			if call, ok := i.(*ssa.Call); ok {
				if h := call.Call.StaticCallee(); h != nil {
					if r := reach(h, seen, chain); r != nil {
						found = r
					}
				}
			}
		})
		return found
	}
	n := 0
	for _, f := range c.Funcs {
		if c.isHarness(f) {
			continue
		}
		fn := c.fname(f)
		eachInstr(f, func(i ssa.Instruction) {
			g, ok := i.(*ssa.Go)
			if !ok {
				return
			}
			target := g.Call.StaticCallee()
			if target == nil {
				if mc, isMC := g.Call.Value.(*ssa.MakeClosure); isMC {
					target, _ = mc.Fn.(*ssa.Function)
				}
			}
			if target == nil || target.Pkg != c.Moss {
				return
			}
			n++
			chain := reach(target, map[*ssa.Function]bool{}, nil)
			if chain == nil {
				o.add(fn, "go "+target.Name()+" starts no unticketed sort", c.instrPos(i), true, "no sorter is reachable from the goroutine except through a ticket holder")
				return
			}
			s := ""
			for k, x := range chain {
				if k > 0 {
					s += " -> "
				}
				s += x
			}
			o.add(fn, "go "+target.Name()+" starts no unticketed sort", c.instrPos(i), false,
				"the goroutine reaches sort.Sort without the single-sorter ticket ("+s+"): it keeps sorting after its caller moved on and published the segment, concurrently with whoever takes the ticket (merger, reader) and sorts the same segment - a data race that leaves the segment unsorted")
		})
	}
	return o.list
}
