package main

// R-ENC: encoding constants and limits agree (C19).

import (
	"fmt"
	"go/constant"
	"go/token"
	"go/types"
	"math/bits"

	"golang.org/x/tools/go/ssa"
)

func init() {
	register(&Rule{
		ID: "R-ENC",
		Doc: "Encoding constants, from go/types constant values: maxKeyLength == maskKeyLength >> tz(maskKeyLength); maxValLength == maskValLength; maskOperation, maskKeyLength, " +
			"maskValLength and maskRESERVED are pairwise disjoint and cover 64 bits; OperationSet/Del/Merge are distinct, non-zero and inside maskOperation. Every shift applied together with " +
			"maskKeyLength (x & mask >> k, mask & (x << k)) uses k == tz(maskKeyLength). In mutateEx the only append to segment.kvs is reachable only through the within-limit edges of the " +
			"comparisons with maxKeyLength and maxValLength, whose failing edges return ErrKeyTooLarge / ErrValueTooLarge before kvs or the counters are written. The two SegmentMutator " +
			"implementations (segment.mutateEx, compactWriter.Mutate) both encode with encodeOpKeyLenValLen, both zero the offset of an empty key+value and both maintain the counters that end up in SegmentLoc.",
		Props: []string{"C19"},
		Floor: 20,
		Run:   ruleEnc,
	})
}

func constU64(c *Ctx, name string) uint64 {
	k := c.Const(name)
	v, ok := constant.Uint64Val(constant.ToInt(k.Val()))
	if !ok {
		broken("constant %s is not a uint64", name)
	}
	return v
}

func ssaConstU64(v ssa.Value) (uint64, bool) {
	k, ok := v.(*ssa.Const)
	if !ok || k.Value == nil || k.Value.Kind() != constant.Int {
		return 0, false
	}
	return constant.Uint64Val(k.Value)
}

func ruleEnc(c *Ctx) []*Ob {
	o := newObs(c, "R-ENC")
	mOp, mKey, mVal, mRes := constU64(c, "maskOperation"), constU64(c, "maskKeyLength"), constU64(c, "maskValLength"), constU64(c, "maskRESERVED")
	maxK, maxV := constU64(c, "maxKeyLength"), constU64(c, "maxValLength")
	tz := uint(bits.TrailingZeros64(mKey))
	pos := func(name string) string { return c.pos(c.Const(name).Pos()) }
	chk := func(construct, p string, ok bool, good, bad string) {
		why := good
		if !ok {
			why = bad
		}
		o.add("package constants", construct, p, ok, why)
	}
	chk("maxKeyLength == maskKeyLength >> tz", pos("maxKeyLength"), maxK == mKey>>tz,
		fmt.Sprintf("maxKeyLength = %d fits the %d-bit key length field", maxK, bits.OnesCount64(mKey)),
		fmt.Sprintf("maxKeyLength = %d but the key length field holds at most %d: longer keys alias shorter ones in the op|keyLen|valLen word", maxK, mKey>>tz))
	chk("maxValLength == maskValLength", pos("maxValLength"), maxV == mVal,
		fmt.Sprintf("maxValLength = %d fits the value length field", maxV),
		fmt.Sprintf("maxValLength = %d but the value length field holds at most %d", maxV, mVal))
	chk("masks disjoint and covering", pos("maskRESERVED"),
		mOp&mKey == 0 && mOp&mVal == 0 && mOp&mRes == 0 && mKey&mVal == 0 && mKey&mRes == 0 && mVal&mRes == 0 && mOp|mKey|mVal|mRes == ^uint64(0),
		"the four masks partition the 64-bit word", "the masks overlap or leave bits uncovered: fields of the op|keyLen|valLen word alias each other")
	ops := []uint64{constU64(c, "OperationSet"), constU64(c, "OperationDel"), constU64(c, "OperationMerge")}
	okOps := ops[0] != ops[1] && ops[0] != ops[2] && ops[1] != ops[2]
	for _, x := range ops {
		if x == 0 || x&^mOp != 0 {
			okOps = false
		}
	}
	chk("operation codes distinct, non-zero, inside maskOperation", pos("OperationSet"), okOps,
		"Set/Del/Merge are distinct non-zero codes inside maskOperation", "an operation code is zero, duplicated or outside maskOperation")

	// shifts used with maskKeyLength
	for _, f := range c.Funcs {
		fn := c.fname(f)
		eachInstr(f, func(i ssa.Instruction) {
			b, ok := i.(*ssa.BinOp)
			if !ok {
				return
			}
			var shiftAmt ssa.Value
			switch b.Op {
			case token.SHR:
				// (mask & x) >> k
				and, ok := b.X.(*ssa.BinOp)
				if !ok || and.Op != token.AND {
					return
				}
				if v, isC := ssaConstU64(and.X); !(isC && v == mKey) {
					if v2, isC2 := ssaConstU64(and.Y); !(isC2 && v2 == mKey) {
						return
					}
				}
				shiftAmt = b.Y
			case token.AND:
				// mask & (x << k)
				var other ssa.Value
				if v, isC := ssaConstU64(b.X); isC && v == mKey {
					other = b.Y
				} else if v, isC := ssaConstU64(b.Y); isC && v == mKey {
					other = b.X
				} else {
					return
				}
				shl, ok := other.(*ssa.BinOp)
				if !ok || shl.Op != token.SHL {
					return
				}
				shiftAmt = shl.Y
			default:
				return
			}
			k, isC := ssaConstU64(shiftAmt)
			ok2 := isC && uint(k) == tz
			why := fmt.Sprintf("shift by %d = trailing zeros of maskKeyLength", tz)
			if !ok2 {
				why = fmt.Sprintf("the key length is shifted by %s but maskKeyLength starts at bit %d: key lengths are decoded wrongly", accessPath(shiftAmt), tz)
			}
			o.add(fn, "shift paired with maskKeyLength", c.instrPos(i), ok2, why)
		})
	}

	// mutateEx: limits before anything is recorded
	mx := c.Fn("(*segment).mutateEx")
	mxn := c.fname(mx)
	fKvs := c.Field("segment", "kvs")
	limitEdge := func(limit uint64) func(from, to *ssa.BasicBlock, cond ssa.Value, onTrue bool) bool {
		return func(from, to *ssa.BasicBlock, cond ssa.Value, onTrue bool) bool {
			b, ok := cond.(*ssa.BinOp)
			if !ok {
				return false
			}
			k, isC := ssaConstU64(b.Y)
			if !isC || k != limit {
				return false
			}
			if _, isParam := b.X.(*ssa.Parameter); !isParam {
				return false
			}
			switch b.Op {
			case token.GTR: // x > limit : within limit on false
				return !onTrue
			case token.LEQ:
				return onTrue
			}
			return false
		}
	}
	counters := map[string]bool{"totOperationSet": true, "totOperationDel": true, "totOperationMerge": true, "totKeyByte": true, "totValByte": true}
	nw := 0
	for _, a := range fieldAccesses(mx, func(v *types.Var) bool {
		return v == fKvs || (counters[v.Name()] && c.FieldOpt("segment", v.Name()) == v)
	}) {
		if a.Kind != "store" {
			continue
		}
		nw++
		okK := mustPrecede(mx, a.Instr, neverInstr, limitEdge(maxK))
		okV := mustPrecede(mx, a.Instr, neverInstr, limitEdge(maxV))
		why := "reachable only after both length limits were checked"
		if !okK || !okV {
			which := "key"
			if okK {
				which = "value"
			}
			why = "segment." + a.Field.Name() + " is written although the " + which + " length was not (yet) compared with its limit: an oversize operation is recorded, or disturbs the batch, before it is rejected"
		}
		o.add(mxn, "write segment."+a.Field.Name()+" after limit checks", c.instrPos(a.Instr), okK && okV, why)
	}
	if nw == 0 {
		o.add(mxn, "write segment.kvs after limit checks", c.pos(mx.Pos()), false, "anchor lost: mutateEx no longer records the operation")
	}
	// the failing edges return the right errors
	for _, lim := range []struct {
		v    uint64
		errn string
	}{{maxK, "ErrKeyTooLarge"}, {maxV, "ErrValueTooLarge"}} {
		found := false
		for _, b := range mx.Blocks {
			iff, ok := b.Instrs[len(b.Instrs)-1].(*ssa.If)
			if !ok {
				continue
			}
			cmp, ok := iff.Cond.(*ssa.BinOp)
			if !ok || cmp.Op != token.GTR {
				continue
			}
			if k, isC := ssaConstU64(cmp.Y); !isC || k != lim.v {
				continue
			}
			if r, isR := b.Succs[0].Instrs[len(b.Succs[0].Instrs)-1].(*ssa.Return); isR {
				for _, og := range origins(r.Results[0]) {
					if isGlobalLoad(og, mossPath, lim.errn) {
						found = true
					}
				}
			}
		}
		why := "the over-limit edge returns " + lim.errn
		if !found {
			why = "no comparison with the limit whose over-limit edge returns " + lim.errn
		}
		o.add(mxn, "over-limit edge returns "+lim.errn, c.pos(mx.Pos()), found, why)
	}
	// funnel: batch-building entry points reach kvs only through mutateEx
	for _, en := range []string{"(*segment).Set", "(*segment).Del", "(*segment).Merge", "(*segment).Mutate", "(*segment).AllocSet", "(*segment).AllocDel", "(*segment).AllocMerge", "(*segment).mutate"} {
		f := c.Fn(en)
		writes := false
		for _, a := range fieldAccesses(f, func(v *types.Var) bool { return v == fKvs }) {
			if a.Write {
				writes = true
			}
		}
		reaches := reachesFunc(c, f, mx, map[*ssa.Function]bool{})
		ok := !writes && reaches
		why := "records the operation only through mutateEx (the one checked encoder)"
		if writes {
			why = "writes segment.kvs itself, bypassing mutateEx's limit checks"
		} else if !reaches {
			why = "no longer reaches mutateEx"
		}
		o.add(en, "records through mutateEx", c.pos(f.Pos()), ok, why)
	}
	// sibling agreement of the two encoders
	enc := c.Fn("encodeOpKeyLenValLen")
	cw := c.Fn("(*compactWriter).Mutate")
	for _, sib := range []*ssa.Function{mx, cw} {
		sn := c.fname(sib)
		o.add(sn, "encodes with encodeOpKeyLenValLen", c.pos(sib.Pos()), len(callsToFn(sib, enc)) > 0,
			map[bool]string{true: "uses the shared encoder", false: "does not use encodeOpKeyLenValLen: the two SegmentMutator implementations may encode differently"}[len(callsToFn(sib, enc)) > 0])
		tn := "segment"
		if sib == cw {
			tn = "compactWriter"
		}
		for _, cn := range []string{"totOperationSet", "totOperationDel", "totKeyByte", "totValByte"} {
			fv := c.Field(tn, cn)
			st := false
			// in the encoder itself or in a helper it calls on the same receiver (countMutation)
			scope := []*ssa.Function{sib}
			eachInstr(sib, func(i ssa.Instruction) {
				if call, ok := i.(*ssa.Call); ok {
					if h := call.Call.StaticCallee(); h != nil && h.Pkg == c.Moss && h != sib && h.Signature.Recv() != nil && len(call.Call.Args) > 0 && len(sib.Params) > 0 && sameValue(call.Call.Args[0], sib.Params[0]) {
						scope = append(scope, h)
					}
				}
			})
			for _, g := range scope {
				for _, a := range fieldAccesses(g, func(v *types.Var) bool { return v == fv }) {
					if a.Kind == "store" {
						st = true
					}
				}
			}
			why := "maintained"
			if !st {
				why = "the counter is not maintained by this encoder although its sibling does: SegmentLoc statistics (and the compaction policy fed by them) go wrong"
			}
			o.add(sn, "maintains "+cn, c.pos(sib.Pos()), st, why)
		}
		// empty key+value => offset 0: a comparison `keyLen <= 0` (or < 1) exists
		hasEmpty := false
		eachInstr(sib, func(i ssa.Instruction) {
			if b, ok := i.(*ssa.BinOp); ok && (b.Op == token.LEQ || b.Op == token.LSS) {
				if k, isC := constInt(b.Y); isC && (k == 0 || k == 1) {
					hasEmpty = true
				}
			}
		})
		why := "an empty key+value is given offset 0"
		if !hasEmpty {
			why = "the empty key+value case is not normalised to offset 0 like in the sibling encoder"
		}
		o.add(sn, "empty key+value offset normalised", c.pos(sib.Pos()), hasEmpty, why)
		// ... and only then: the edge that replaces the entry's offset by 0 is controlled by emptiness tests of two
		// different parameters (key and value); zeroing the offset of an entry that still has value bytes makes
		// it read the start of the buffer
		eachInstr(sib, func(i ssa.Instruction) {
			phi, ok := i.(*ssa.Phi)
			if !ok {
				return
			}
			if bt, isB := phi.Type().Underlying().(*types.Basic); !isB || bt.Info()&types.IsInteger == 0 {
				return
			}
			for k, e := range phi.Edges {
				if z, isC := constInt(e); !isC || z != 0 {
					continue
				}
				other := false
				for k2, e2 := range phi.Edges {
					if k2 != k {
						if _, isC2 := e2.(*ssa.Const); !isC2 {
							other = true
						}
					}
				}
				if !other {
					continue
				}
				pred := phi.Block().Preds[k]
				ctl := controllingIfs(pred.Instrs[len(pred.Instrs)-1])
				if iff, isIf := pred.Instrs[len(pred.Instrs)-1].(*ssa.If); isIf {
					ctl = append(ctl, iff)
				}
				params := map[*ssa.Parameter]bool{}
				for _, iff := range ctl {
					cmp, isCmp := iff.Cond.(*ssa.BinOp)
					if !isCmp || (cmp.Op != token.LEQ && cmp.Op != token.LSS && cmp.Op != token.EQL) {
						continue
					}
					if kk, isK := constInt(cmp.Y); !isK || (kk != 0 && kk != 1) {
						continue
					}
					condSlice(cmp.X, func(w ssa.Value) bool {
						if pp, isP := w.(*ssa.Parameter); isP {
							params[pp] = true
						}
						if call, isCall := w.(*ssa.Call); isCall {
							if bi, isBi := call.Call.Value.(*ssa.Builtin); isBi && bi.Name() == "len" {
								for _, og := range origins(call.Call.Args[0]) {
									if pp, isP := og.(*ssa.Parameter); isP {
										params[pp] = true
									}
								}
							}
						}
						return false
					})
				}
				if len(params) == 0 {
					continue // not the emptiness normalisation
				}
				okBoth := len(params) >= 2
				why2 := "the offset is replaced by 0 only when both the key and the value are empty"
				if !okBoth {
					why2 = "the offset of an entry is replaced by 0 on the emptiness of one length only: an entry with an empty key but value bytes (or vice versa) then points at the start of the buffer and reads back other bytes"
				}
				o.add(sn, "offset zeroed only when key and value are both empty", c.instrPos(pred.Instrs[len(pred.Instrs)-1]), okBoth, why2)
			}
		})
	}
	return o.list
}

// reachesFunc: f reaches target through static calls within moss.
func reachesFunc(c *Ctx, f, target *ssa.Function, seen map[*ssa.Function]bool) bool {
	if f == target {
		return true
	}
	if seen[f] {
		return false
	}
	seen[f] = true
	found := false
	eachInstr(f, func(i ssa.Instruction) {
		if found {
			return
		}
		if ci, ok := i.(ssa.CallInstruction); ok {
			if cal := ci.Common().StaticCallee(); cal != nil && cal.Pkg == c.Moss {
				if reachesFunc(c, cal, target, seen) {
					found = true
				}
			}
		}
	})
	return found
}

// ---------------------------------------------------------------- ENC-6

func init() {
	register(&Rule{
		ID: "ENC-6",
		Doc: "Offset recovery from capacities agrees between the provider and the consumers: where a batch-building function recovers the position of a caller-supplied slice inside segment.buf " +
			"as `X - cap(param)` and hands it to mutateEx, X is cap(segment.buf) (a slice of buf that runs to the end of buf's capacity has cap = cap(buf) - offset; len(buf) moves with every later Alloc), " +
			"and every slice of segment.buf that a segment method returns to the caller is a two-index slice (a capacity-limited three-index slice no longer encodes its offset). " +
			"Conditional on the idiom: an implementation that does not recover offsets from capacities has no obligation here (positive control: mutants enc6-*). Decides the agreement, not the arithmetic of the offsets.",
		Props: []string{"C19"},
		Floor: 0,
		Run:   ruleEnc6,
	})
}

func isBuiltinCall(v ssa.Value, name string) (ssa.Value, bool) {
	call, ok := v.(*ssa.Call)
	if !ok {
		return nil, false
	}
	b, isB := call.Call.Value.(*ssa.Builtin)
	if !isB || b.Name() != name || len(call.Call.Args) != 1 {
		return nil, false
	}
	return call.Call.Args[0], true
}

func ruleEnc6(c *Ctx) []*Ob {
	o := newObs(c, "ENC-6")
	mutateEx := c.Fn("(*segment).mutateEx")
	fBuf := c.Field("segment", "buf")
	consumers := 0
	for _, f := range c.Funcs {
		fn := c.fname(f)
		for _, k := range callsToFn(f, mutateEx) {
			// arguments: receiver, operation, keyStart, keyLen, valLen
			for ai, arg := range k.Call.Args {
				if ai == 0 {
					continue
				}
				var visit func(v ssa.Value, d int)
				seen := map[ssa.Value]bool{}
				visit = func(v ssa.Value, d int) {
					if seen[v] || d > 6 {
						return
					}
					seen[v] = true
					for _, og := range origins(v) {
						b, isB := og.(*ssa.BinOp)
						if !isB {
							continue
						}
						if b.Op == token.SUB {
							if p, isCap := isBuiltinCall(b.Y, "cap"); isCap {
								if _, isParam := p.(*ssa.Parameter); isParam {
									consumers++
									x, xIsCap := isBuiltinCall(b.X, "cap")
									ok := false
									if xIsCap {
										if fv, _ := loadedField(x); fv == fBuf {
											ok = true
										}
									}
									why := "the offset is cap(segment.buf) - cap(" + p.Name() + ")"
									if !ok {
										why = "the position handed to mutateEx is " + accessPath(b.X) + " - cap(" + p.Name() + "), not cap(segment.buf) - cap(" + p.Name() + "): " +
											"only the capacity of buf is a fixed reference (its length moves with every Alloc that follows the key's), so an entry whose value was allocated after its key is recorded at the wrong offset"
									}
									o.add(fn, "offset of "+p.Name()+" recovered from its capacity", c.instrPos(b), ok, why)
								}
							}
						}
						visit(b.X, d+1)
						visit(b.Y, d+1)
					}
				}
				visit(arg, 0)
			}
		}
	}
	if consumers == 0 {
		return o.list // the idiom is not used: nothing to agree on
	}
	// providers: methods of segment returning a slice of buf to the caller
	for _, f := range methodsOf(c, "segment") {
		fn := c.fname(f)
		for _, b := range f.Blocks {
			for _, i := range b.Instrs {
				r, isR := i.(*ssa.Return)
				if !isR {
					continue
				}
				for _, res := range r.Results {
					if _, isSl := res.Type().Underlying().(*types.Slice); !isSl {
						continue
					}
					for _, og := range origins(res) {
						sl, isS := og.(*ssa.Slice)
						if !isS {
							continue
						}
						if fv, _ := loadedField(sl.X); fv != fBuf {
							continue
						}
						if f.Object() == nil || !f.Object().Exported() || f.Name() != "Alloc" {
							// only slices handed out for later Alloc* calls matter: the Alloc method (SegmentMutator/Batch API)
							continue
						}
						ok := sl.Max == nil
						why := "the slice handed out runs to the end of buf's capacity: cap(result) = cap(buf) - offset"
						if !ok {
							why = "the slice handed out has its capacity limited (three-index slice): cap(result) no longer encodes the offset that AllocSet/AllocDel/AllocMerge recover from it"
						}
						o.add(fn, "slice of segment.buf returned to the caller", c.instrPos(sl), ok, why)
					}
				}
			}
		}
	}
	return o.list
}
