package main

// ITER-*: the structural clauses of C09 (iterators enumerate the range in
// order and seek correctly). What is decided here is the shape every correct
// iterator implementation of this code base needs - bounds that cannot move,
// range guards in front of every entry fetch, done-reporting behind the end
// test, the clamp of a seek to the lower bound, the tombstone filter in front
// of every yield and the arguments of the restart in SeekTo. The search
// arithmetic itself (binary search, heap order on runtime keys) is not.

import (
	"go/token"
	"go/types"

	"golang.org/x/tools/go/ssa"
)

func init() {
	register(&Rule{
		ID: "ITER-1",
		Doc: "Bounds cannot move: the fields that define what an iterator enumerates - iterator.{ss,startKeyInclusive,endKeyExclusive,prefixLen,iteratorOptions}, " +
			"iteratorSingle.{s,options,iteratorOptions}, segmentCursor.{s,start,end} - are written only while the object is being built (stores through a freshly allocated object); " +
			"no later field store and no whole-struct assignment (*iter = ...) through a shared pointer. A SeekTo that overwrites the lower bound makes later backward seeks land on the wrong key.",
		Props: []string{"C09"},
		Floor: 3,
		Run:   ruleIter1,
	})
	register(&Rule{
		ID: "ITER-2",
		Doc: "Seek clamps to the lower bound: in a segmentCursor method, a store to curr of a position that is not derived from curr or start itself (the result of a key search) is followed on " +
			"every path to a return by a comparison of curr with start, and a store curr = start exists behind the curr < start edge.",
		Props: []string{"C09"},
		Floor: 1,
		Run:   ruleIter2,
	})
	register(&Rule{
		ID: "ITER-3",
		Doc: "Range guard: in segmentCursor methods every fetch getOperationKeyVal(curr) lies behind the `curr >= start` edge and the `curr < end` edge; and every return of a nil error from a method " +
			"that moved curr lies behind the `curr < end` edge (ErrIteratorDone is reported exactly when the cursor left the range).",
		Props: []string{"C09"},
		Floor: 3,
		Run:   ruleIter3,
	})
	register(&Rule{
		ID: "ITER-4",
		Doc: "Tombstone filter in front of every yield: in iterator.Next, iteratorSingle.Next, iteratorSingle.SeekTo and segmentStack.startIterator, every path from an instruction that " +
			"repositions the iterator (heap.Init/Fix/Pop; a store of a fetched operation into iteratorSingle.op) to a successful return passes the IncludeDeletions == true edge, the " +
			"`op != OperationDel` edge, a delegation to Next, or another repositioning.",
		Props: []string{"C09", "C10"},
		Floor: 3,
		Run:   ruleIter4,
	})
	register(&Rule{
		ID: "ITER-5",
		Doc: "Restart keeps the range: the startIterator call in iterator.SeekTo takes its end bound from iter.endKeyExclusive, its options from iter.iteratorOptions, and a start bound whose " +
			"origins are the seek key and iter.startKeyInclusive (both: the seek key is clamped to the lower bound).",
		Props: []string{"C09"},
		Floor: 1,
		Run:   ruleIter5,
	})
}

// fieldRel: cond compares loads of fa and fb (through any base); returns the
// relation `fa REL fb` that holds on the given edge ("" if cond is no such test).
func fieldRel(cond ssa.Value, onTrue bool, fa, fb *types.Var) string {
	b, ok := cond.(*ssa.BinOp)
	if !ok {
		return ""
	}
	fx, _ := loadedField(b.X)
	fy, _ := loadedField(b.Y)
	var op token.Token
	switch {
	case fx == fa && fy == fb && fa != nil && fb != nil:
		op = b.Op
	case fx == fb && fy == fa && fa != nil && fb != nil:
		switch b.Op { // swap operands
		case token.LSS:
			op = token.GTR
		case token.GTR:
			op = token.LSS
		case token.LEQ:
			op = token.GEQ
		case token.GEQ:
			op = token.LEQ
		default:
			op = b.Op
		}
	default:
		return ""
	}
	if !onTrue {
		switch op {
		case token.LSS:
			op = token.GEQ
		case token.GEQ:
			op = token.LSS
		case token.GTR:
			op = token.LEQ
		case token.LEQ:
			op = token.GTR
		case token.EQL:
			op = token.NEQ
		case token.NEQ:
			op = token.EQL
		}
	}
	return op.String()
}

func relEdge(fa, fb *types.Var, accept ...string) func(from, to *ssa.BasicBlock, cond ssa.Value, onTrue bool) bool {
	return func(from, to *ssa.BasicBlock, cond ssa.Value, onTrue bool) bool {
		r := fieldRel(cond, onTrue, fa, fb)
		for _, a := range accept {
			if r == a {
				return true
			}
		}
		return false
	}
}

// addrOnlyRead: the field address taken by instruction i is used only to read (nested field loads).
func addrOnlyRead(i ssa.Instruction) bool {
	v, ok := i.(ssa.Value)
	if !ok {
		return false
	}
	var rec func(v ssa.Value, d int) bool
	rec = func(v ssa.Value, d int) bool {
		refs := v.Referrers()
		if refs == nil || d > 4 {
			return false
		}
		for _, r := range *refs {
			switch x := r.(type) {
			case *ssa.UnOp:
				if x.Op != token.MUL {
					return false
				}
			case *ssa.FieldAddr:
				if !rec(x, d+1) {
					return false
				}
			case *ssa.DebugRef:
			default:
				return false
			}
		}
		return true
	}
	return rec(v, 0)
}

func methodsOf(c *Ctx, typ string) []*ssa.Function {
	var out []*ssa.Function
	for _, f := range c.Funcs {
		if f.Signature.Recv() == nil || f.Parent() != nil {
			continue
		}
		if typeName(f.Signature.Recv().Type()) == typ {
			out = append(out, f)
		}
	}
	return out
}

func ruleIter1(c *Ctx) []*Ob {
	o := newObs(c, "ITER-1")
	frozen := map[*types.Var]string{}
	for _, tf := range [][2]string{
		{"iterator", "ss"}, {"iterator", "startKeyInclusive"}, {"iterator", "endKeyExclusive"}, {"iterator", "prefixLen"}, {"iterator", "iteratorOptions"},
		{"iteratorSingle", "s"}, {"iteratorSingle", "options"}, {"iteratorSingle", "iteratorOptions"},
		{"segmentCursor", "s"}, {"segmentCursor", "start"}, {"segmentCursor", "end"},
	} {
		frozen[c.Field(tf[0], tf[1])] = tf[0] + "." + tf[1]
	}
	frozenTypes := map[string]bool{"iterator": true, "iteratorSingle": true, "segmentCursor": true}
	for _, f := range c.Funcs {
		if c.isHarness(f) {
			continue
		}
		fn := c.fname(f)
		for _, a := range fieldAccesses(f, func(v *types.Var) bool { return frozen[v] != "" }) {
			if a.Kind == "load" {
				continue
			}
			construct := a.Kind + " " + frozen[a.Field]
			if a.Kind == "store" && isFreshAlloc(a.Base) {
				o.add(fn, construct, c.instrPos(a.Instr), true, "written while the object is being built")
				continue
			}
			if a.Kind == "addr" && addrOnlyRead(a.Instr) {
				continue
			}
			if a.Kind == "addr" {
				// the address of a frozen field escapes only to readers (e.g. &iter.iteratorOptions passed by pointer) - none today
				o.add(fn, construct, c.instrPos(a.Instr), false, "the address of a range-defining field escapes: it can be rewritten behind the iterator's back")
				continue
			}
			o.add(fn, construct, c.instrPos(a.Instr), false,
				"a range-defining field of a live iterator/cursor is rewritten: the range [start,end) it enumerates, and where later seeks may land, changes under the caller")
		}
		// whole-struct assignment through a shared pointer
		eachInstr(f, func(i ssa.Instruction) {
			st, ok := i.(*ssa.Store)
			if !ok {
				return
			}
			pt, ok := st.Addr.Type().Underlying().(*types.Pointer)
			if !ok {
				return
			}
			if _, isStruct := pt.Elem().Underlying().(*types.Struct); !isStruct || !frozenTypes[typeName(pt.Elem())] {
				return
			}
			if isFreshAlloc(st.Addr) {
				return
			}
			if a, isA := st.Addr.(*ssa.Alloc); isA && !a.Heap {
				return
			}
			o.add(fn, "whole-struct store *"+typeName(pt.Elem()), c.instrPos(i), false,
				"the whole "+typeName(pt.Elem())+" is overwritten through a shared pointer, its bounds included: after a restart the lower bound becomes the last seek key and a later backward seek stops there")
		})
	}
	return o.list
}

func ruleIter2(c *Ctx) []*Ob {
	o := newObs(c, "ITER-2")
	fCurr, fStart := c.Field("segmentCursor", "curr"), c.Field("segmentCursor", "start")
	n := 0
	for _, f := range methodsOf(c, "segmentCursor") {
		fn := c.fname(f)
		for _, a := range fieldAccesses(f, func(v *types.Var) bool { return v == fCurr }) {
			if a.Kind != "store" || isFreshAlloc(a.Base) {
				continue
			}
			derived := false
			var scan func(v ssa.Value, d int)
			scan = func(v ssa.Value, d int) {
				backSlice(v, func(w ssa.Value) bool {
					if fv, _ := loadedField(w); fv == fCurr || fv == fStart {
						derived = true
					}
					if b, isB := w.(*ssa.BinOp); isB && d < 4 {
						scan(b.X, d+1)
						scan(b.Y, d+1)
					}
					return false
				})
			}
			scan(a.Val, 0)
			if derived {
				continue
			}
			n++
			reachedReturn := ""
			walk(after(a.Instr), walkOpts{
				noInline: true,
				visit: func(i ssa.Instruction, t *tracker) bool {
					if _, ok := i.(*ssa.Return); ok && reachedReturn == "" {
						reachedReturn = c.instrPos(i)
					}
					return reachedReturn != ""
				},
				edge: func(from, to *ssa.BasicBlock, label string, cond ssa.Value, onTrue bool, _ *tracker) bool {
					return fieldRel(cond, onTrue, fCurr, fStart) != ""
				},
			})
			clamp := false
			for _, b := range fieldAccesses(f, func(v *types.Var) bool { return v == fCurr }) {
				if b.Kind != "store" || b.Instr == a.Instr {
					continue
				}
				if fv, _ := loadedField(b.Val); fv == fStart && mustPrecede(f, b.Instr, neverInstr, relEdge(fCurr, fStart, "<")) {
					clamp = true
				}
			}
			ok := reachedReturn == "" && clamp
			why := "every path from the repositioning compares curr with start, and curr = start is stored behind curr < start"
			if reachedReturn != "" {
				why = "a path from the store of the searched position reaches the return at " + reachedReturn + " without comparing curr with start: a seek below the lower bound leaves the cursor outside [start,end) - Current reports done although in-range keys exist"
			} else if !clamp {
				why = "no store curr = start behind the curr < start edge: a seek below the lower bound is not clamped"
			}
			o.add(fn, "store curr = "+accessPath(a.Val), c.instrPos(a.Instr), ok, why)
		}
	}
	if n == 0 {
		o.add("segmentCursor", "repositioning store to curr", "-", false, "anchor lost: no segmentCursor method stores a searched position into curr")
	}
	return o.list
}

func ruleIter3(c *Ctx) []*Ob {
	o := newObs(c, "ITER-3")
	fCurr, fStart, fEnd := c.Field("segmentCursor", "curr"), c.Field("segmentCursor", "start"), c.Field("segmentCursor", "end")
	gokv := c.Fn("(*segment).getOperationKeyVal")
	for _, f := range methodsOf(c, "segmentCursor") {
		fn := c.fname(f)
		eachInstr(f, func(i ssa.Instruction) {
			call, ok := i.(*ssa.Call)
			if !ok || call.Call.StaticCallee() != gokv || len(call.Call.Args) < 2 {
				return
			}
			fromCurr := false
			for _, og := range origins(call.Call.Args[1]) {
				if fv, _ := loadedField(og); fv == fCurr {
					fromCurr = true
				}
			}
			if !fromCurr {
				return
			}
			lo := mustPrecede(f, i, neverInstr, relEdge(fCurr, fStart, ">=", ">", "=="))
			hi := mustPrecede(f, i, neverInstr, relEdge(fCurr, fEnd, "<"))
			why := "the fetch lies behind curr >= start and curr < end"
			if !lo {
				why = "the entry at curr is fetched without the curr >= start guard: after a seek or restart below the lower bound the cursor yields keys smaller than the start key"
			} else if !hi {
				why = "the entry at curr is fetched without the curr < end guard: the cursor yields keys at or beyond the end key (or past the segment)"
			}
			o.add(fn, "getOperationKeyVal(curr)", c.instrPos(i), lo && hi, why)
		})
		// a nil error only while inside the range
		res := f.Signature.Results()
		if res.Len() != 1 || !isErrorType(res.At(0).Type()) {
			continue
		}
		moves := false
		for _, a := range fieldAccesses(f, func(v *types.Var) bool { return v == fCurr }) {
			if a.Kind == "store" {
				moves = true
			}
		}
		if !moves {
			continue
		}
		eachInstr(f, func(i ssa.Instruction) {
			r, ok := i.(*ssa.Return)
			if !ok || len(r.Results) != 1 || !isNilConst(r.Results[0]) {
				return
			}
			okk := mustPrecede(f, i, neverInstr, relEdge(fCurr, fEnd, "<"))
			why := "nil is returned only behind curr < end"
			if !okk {
				why = "a nil error is returned on a path that did not establish curr < end: the cursor reports an entry where it has left the range, or never reports ErrIteratorDone"
			}
			o.add(fn, "return nil", c.instrPos(i), okk, why)
		})
	}
	return o.list
}

func ruleIter4(c *Ctx) []*Ob {
	o := newObs(c, "ITER-4")
	fInc := c.Field("IteratorOptions", "IncludeDeletions")
	fOp := c.Field("iteratorSingle", "op")
	nexts := map[*ssa.Function]bool{c.Fn("(*iterator).Next"): true, c.Fn("(*iteratorSingle).Next"): true}
	isReposition := func(i ssa.Instruction) bool {
		if call, ok := i.(*ssa.Call); ok {
			if isStaticCall(call, "container/heap", "Init") || isStaticCall(call, "container/heap", "Fix") || isStaticCall(call, "container/heap", "Pop") {
				return true
			}
		}
		if st, ok := i.(*ssa.Store); ok {
			if fv, base := asFieldAddr(st.Addr); fv == fOp && !isFreshAlloc(base) {
				if _, isK := st.Val.(*ssa.Const); !isK {
					return true
				}
			}
		}
		return false
	}
	incEdge := flagEdge(fInc, true)
	for _, name := range []string{"(*iterator).Next", "(*iteratorSingle).Next", "(*iteratorSingle).SeekTo", "(*segmentStack).startIterator"} {
		f := c.Fn(name)
		fn := c.fname(f)
		res := f.Signature.Results()
		errIdx := res.Len() - 1
		n := 0
		eachInstr(f, func(p ssa.Instruction) {
			if !isReposition(p) {
				return
			}
			n++
			bad := ""
			walk(after(p), walkOpts{
				noInline: true,
				visit: func(i ssa.Instruction, t *tracker) bool {
					if bad != "" {
						return true
					}
					if isReposition(i) {
						return true // decided at that instruction
					}
					if ci, ok := i.(ssa.CallInstruction); ok && nexts[ci.Common().StaticCallee()] {
						return true // delegation: Next filters
					}
					if r, ok := i.(*ssa.Return); ok {
						if len(r.Results) > errIdx && isNilConst(r.Results[errIdx]) {
							bad = c.instrPos(i)
						}
						return true
					}
					return false
				},
				edge: func(from, to *ssa.BasicBlock, label string, cond ssa.Value, onTrue bool, _ *tracker) bool {
					if bad != "" || incEdge(from, to, cond, onTrue) {
						return true
					}
					if _, eqOnTrue, ok := isOpTest(c, cond, "OperationDel"); ok && eqOnTrue != onTrue {
						return true // op != OperationDel
					}
					return false
				},
			})
			why := "every path to a successful return passes the tombstone filter (IncludeDeletions, op != OperationDel), delegates to Next or repositions again"
			if bad != "" {
				why = "a path from this repositioning reaches the successful return at " + bad + " without the tombstone filter: a deleted key can be left as the current entry (Current returns nil key/value mid-range)"
			}
			o.add(fn, "reposition: "+shortInstr(p), c.instrPos(p), bad == "", why)
		})
		if n == 0 {
			o.add(fn, "reposition", c.pos(f.Pos()), false, "anchor lost: the function no longer repositions the iterator in a recognised way (heap.Init/Fix/Pop or a store to iteratorSingle.op)")
		}
	}
	return o.list
}

func shortInstr(i ssa.Instruction) string {
	if ci, ok := i.(ssa.CallInstruction); ok {
		return "call " + calleeShort(i) + func() string {
			if sf := ci.Common().StaticCallee(); sf != nil && sf.Pkg != nil && sf.Pkg.Pkg.Path() != mossPath {
				return " (" + sf.Pkg.Pkg.Name() + ")"
			}
			return ""
		}()
	}
	if st, ok := i.(*ssa.Store); ok {
		if fv, _ := asFieldAddr(st.Addr); fv != nil {
			return "store " + fv.Name()
		}
	}
	return "instr"
}

func ruleIter5(c *Ctx) []*Ob {
	o := newObs(c, "ITER-5")
	f := c.Fn("(*iterator).SeekTo")
	fn := c.fname(f)
	si := c.Fn("(*segmentStack).startIterator")
	fStart, fEnd, fOpts := c.Field("iterator", "startKeyInclusive"), c.Field("iterator", "endKeyExclusive"), c.Field("iterator", "iteratorOptions")
	n := 0
	eachInstr(f, func(i ssa.Instruction) {
		call, ok := i.(*ssa.Call)
		if !ok || call.Call.StaticCallee() != si || len(call.Call.Args) != 4 {
			return
		}
		n++
		hasField := func(v ssa.Value, fv *types.Var) (has bool, other []ssa.Value) {
			for _, og := range originsDeep(c, v) {
				if g, _ := loadedField(og); g == fv {
					has = true
				} else {
					other = append(other, og)
				}
			}
			return
		}
		sHas, sOther := hasField(call.Call.Args[1], fStart)
		sOK := sHas
		for _, og := range sOther {
			if p, isP := og.(*ssa.Parameter); !isP || p.Parent() != f {
				sOK = false
			}
		}
		why := "the restart's lower bound is the seek key or iter.startKeyInclusive"
		if !sHas {
			why = "the restart's lower bound never takes iter.startKeyInclusive: a seek to a key below the iterator's start yields keys outside the range"
		} else if !sOK {
			why = "the restart's lower bound has an origin other than the seek key and iter.startKeyInclusive (" + accessPath(call.Call.Args[1]) + ")"
		}
		o.add(fn, "startIterator start bound", c.instrPos(i), sOK, why)
		eHas, eOther := hasField(call.Call.Args[2], fEnd)
		eOK := eHas && len(eOther) == 0
		why = "the restart keeps iter.endKeyExclusive"
		if !eOK {
			why = "the restart's end bound is not iter.endKeyExclusive (" + accessPath(call.Call.Args[2]) + "): after a backward or far seek the iterator runs past the end of its range"
		}
		o.add(fn, "startIterator end bound", c.instrPos(i), eOK, why)
		oHas, oOther := hasField(call.Call.Args[3], fOpts)
		oOK := oHas && len(oOther) == 0
		why = "the restart keeps iter.iteratorOptions"
		if !oOK {
			why = "the restart's options are not iter.iteratorOptions (" + accessPath(call.Call.Args[3]) + "): deletions / level bounds / base change after a seek"
		}
		o.add(fn, "startIterator options", c.instrPos(i), oOK, why)
	})
	if n == 0 {
		o.add(fn, "restart via startIterator", c.pos(f.Pos()), false, "anchor lost: iterator.SeekTo no longer restarts through segmentStack.startIterator")
	}
	return o.list
}

func init() {
	register(&Rule{
		ID: "ITER-6",
		Doc: "Restart moves the whole position: the iterator that startIterator built for the restart in iterator.SeekTo is dropped afterwards, so on every path from the call's nil-error edge " +
			"to a return both of its position-carrying fields, cursors and lowerLevelIter, are stored into the live iterator (iter.cursors = iterNew.cursors; iter.lowerLevelIter = iterNew.lowerLevelIter). " +
			"Leaving one behind makes Next advance the old lower-level iterator from its old position (keys that live only in the lower level are skipped) and leaks the new one.",
		Props: []string{"C09", "C10"},
		Floor: 1,
		Run:   ruleIter6,
	})
	register(&Rule{
		ID: "ITER-7",
		Doc: "Done means done: in iteratorSingle.Next and iteratorSingle.SeekTo a return of the error that the segment cursor reported (sc.Next / sc.Seek) is dominated by a store op = 0 " +
			"(Current and CurrentEx report ErrIteratorDone exactly when op == 0), with no store of a fetched operation in between.",
		Props: []string{"C09"},
		Floor: 2,
		Run:   ruleIter7,
	})
}

func ruleIter6(c *Ctx) []*Ob {
	o := newObs(c, "ITER-6")
	f := c.Fn("(*iterator).SeekTo")
	fn := c.fname(f)
	si := c.Fn("(*segmentStack).startIterator")
	fields := []*types.Var{c.Field("iterator", "cursors"), c.Field("iterator", "lowerLevelIter")}
	recv := f.Params[0]
	n := 0
	for _, k := range callsToFn(f, si) {
		n++
		res := firstResult(k)
		for _, fv := range fields {
			fv := fv
			isMove := func(i ssa.Instruction) bool {
				st, ok := i.(*ssa.Store)
				if !ok {
					return false
				}
				dst, base := asFieldAddr(st.Addr)
				if dst != fv || base == nil {
					return false
				}
				toLive := false
				for _, og := range origins(base) {
					if og == ssa.Value(recv) {
						toLive = true
					}
				}
				if !toLive {
					return false
				}
				src, sbase := loadedField(st.Val)
				if src != fv || sbase == nil || res == nil {
					return false
				}
				for _, og := range origins(sbase) {
					if og == res {
						return true
					}
				}
				return false
			}
			bad := ""
			walk(after(k), walkOpts{
				origin: k, originIdx: errResultIndex(k.Call.Signature()), noInline: true,
				visit: func(i ssa.Instruction, t *tracker) bool {
					if bad != "" || isMove(i) {
						return true
					}
					if _, ok := i.(*ssa.Return); ok {
						bad = c.instrPos(i)
						return true
					}
					return false
				},
				edge: func(from, to *ssa.BasicBlock, label string, cond ssa.Value, onTrue bool, _ *tracker) bool {
					return bad != "" || label == "nonnil"
				},
			})
			why := "moved into the live iterator on every path after a successful restart"
			if bad != "" {
				why = "after a successful restart a path reaches the return at " + bad + " without iter." + fv.Name() + " = iterNew." + fv.Name() +
					": the live iterator keeps its old " + fv.Name() + " (Next continues from the old position; keys between the seek key and the old position are skipped) and the new one is leaked"
			}
			o.add(fn, "restart moves "+fv.Name(), c.instrPos(k), bad == "", why)
		}
	}
	if n == 0 {
		o.add(fn, "restart via startIterator", c.pos(f.Pos()), false, "anchor lost: iterator.SeekTo no longer restarts through segmentStack.startIterator")
	}
	return o.list
}

func ruleIter7(c *Ctx) []*Ob {
	o := newObs(c, "ITER-7")
	fOp := c.Field("iteratorSingle", "op")
	fSc := c.Field("iteratorSingle", "sc")
	for _, name := range []string{"(*iteratorSingle).Next", "(*iteratorSingle).SeekTo"} {
		f := c.Fn(name)
		fn := c.fname(f)
		isZeroOp := func(i ssa.Instruction) bool {
			st, ok := i.(*ssa.Store)
			if !ok {
				return false
			}
			fv, _ := asFieldAddr(st.Addr)
			return fv == fOp && isZeroConst(st.Val)
		}
		isFetchOp := func(i ssa.Instruction) bool {
			st, ok := i.(*ssa.Store)
			if !ok {
				return false
			}
			fv, _ := asFieldAddr(st.Addr)
			if fv != fOp {
				return false
			}
			_, isK := st.Val.(*ssa.Const)
			return !isK
		}
		n := 0
		eachInstr(f, func(i ssa.Instruction) {
			r, ok := i.(*ssa.Return)
			if !ok || len(r.Results) != 1 || isNilConst(r.Results[0]) {
				return
			}
			// the error comes from a call on the segment cursor
			fromCursor := false
			for _, og := range origins(r.Results[0]) {
				call, isC := og.(*ssa.Call)
				if !isC {
					if e, isE := og.(*ssa.Extract); isE {
						call, isC = e.Tuple.(*ssa.Call)
					}
				}
				if isC && call.Call.IsInvoke() {
					if fv, _ := loadedField(call.Call.Value); fv == fSc {
						fromCursor = true
					}
				}
			}
			if !fromCursor {
				return
			}
			n++
			// a zeroing store dominates the return, and no fetch store lies between it and the return
			dominated := mustPrecede(f, i, isZeroOp, nil)
			refetched := false
			if dominated {
				eachInstr(f, func(z ssa.Instruction) {
					if !isZeroOp(z) {
						return
					}
					walk(after(z), walkOpts{noInline: true, visit: func(j ssa.Instruction, t *tracker) bool {
						if j == i {
							return true
						}
						if isFetchOp(j) {
							// is the return reachable from here without another zeroing store?
							if _, reach := reachableFrom(j, func(q ssa.Instruction) bool { return q == i }, isZeroOp, nil); reach {
								refetched = true
							}
							return true
						}
						return isZeroOp(j)
					}})
				})
			}
			ok2 := dominated && !refetched
			why := "op = 0 is stored on every path before the cursor's error is returned"
			if !ok2 {
				why = "the cursor's error (ErrIteratorDone) is returned on a path on which op was not reset to 0: SeekTo/Next report done but Current keeps returning the stale key and value with a nil error"
			}
			o.add(fn, "return of the cursor's error", c.instrPos(i), ok2, why)
		})
		if n == 0 {
			o.add(fn, "return of the cursor's error", c.pos(f.Pos()), false, "anchor lost: the function no longer returns the segment cursor's error")
		}
	}
	return o.list
}

func init() {
	register(&Rule{
		ID: "ITER-8",
		Doc: "The single-source fast path is chosen by the number of sources, not of live cursors: in iterator.optimize every return of something other than the receiver (an iteratorSingle, the " +
			"lower level's iterator) lies behind the `numSources == 1` edge, and iterator.numSources is written exactly once, in startIterator, from len(cursors) before heap.Init and before " +
			"any cursor can be exhausted. (optimize runs after the initial skip of a leading deletion; with {a,b} under {Del a} one live cursor is left, and a backward SeekTo on the " +
			"single-segment iterator yields the deleted a - D24.)",
		Props: []string{"C09", "C10"},
		Floor: 1,
		Run:   ruleIter8,
	})
}

func ruleIter8(c *Ctx) []*Ob {
	o := newObs(c, "ITER-8")
	f := c.Fn("(*iterator).optimize")
	fn := c.fname(f)
	fNum := c.FieldOpt("iterator", "numSources")
	recv := f.Params[0]
	oneSource := func(from, to *ssa.BasicBlock, cond ssa.Value, onTrue bool) bool {
		b, ok := cond.(*ssa.BinOp)
		if !ok || fNum == nil || (b.Op != token.EQL && b.Op != token.NEQ) {
			return false
		}
		x, y := b.X, b.Y
		if isConstInt(x, 1) {
			x, y = y, x
		}
		if !isConstInt(y, 1) {
			return false
		}
		if fv, _ := loadedField(x); fv != fNum {
			return false
		}
		return (b.Op == token.EQL) == onTrue
	}
	n := 0
	eachInstr(f, func(i ssa.Instruction) {
		r, ok := i.(*ssa.Return)
		if !ok || len(r.Results) == 0 {
			return
		}
		self := true
		for _, og := range origins(r.Results[0]) {
			if og != ssa.Value(recv) {
				self = false
			}
		}
		if self {
			return
		}
		n++
		okk := fNum != nil && mustPrecede(f, i, neverInstr, oneSource)
		why := "the replacement iterator is handed out only when the iterator started with exactly one source"
		if !okk {
			why = "optimize hands out an iterator over one source (" + accessPath(r.Results[0]) + ") on a path that only established that one cursor is LIVE: the sources whose cursors were exhausted by the initial tombstone skip are forgotten, and a backward SeekTo resurrects keys they delete"
		}
		o.add(fn, "fast-path return", c.instrPos(i), okk, why)
	})
	if n == 0 {
		o.trivial(fn, "no fast path", c.pos(f.Pos()), "optimize always returns the heap iterator")
		return o.list
	}
	if fNum == nil {
		return o.list
	}
	// numSources is written once, in startIterator, before heap.Init, from len(cursors)
	si := c.Fn("(*segmentStack).startIterator")
	fCur := c.Field("iterator", "cursors")
	nst := 0
	for _, g := range c.Funcs {
		for _, a := range fieldAccesses(g, func(v *types.Var) bool { return v == fNum }) {
			if a.Kind == "load" {
				continue
			}
			nst++
			okk := g == si && a.Kind == "store"
			if okk {
				fromLen := false
				for _, og := range origins(a.Val) {
					if call, isC := og.(*ssa.Call); isC {
						if b, isB := call.Call.Value.(*ssa.Builtin); isB && b.Name() == "len" && len(call.Call.Args) == 1 {
							if fv, _ := loadedField(call.Call.Args[0]); fv == fCur {
								fromLen = true
							}
						}
					}
				}
				beforeHeap := true
				eachInstr(g, func(j ssa.Instruction) {
					if call, isC := j.(*ssa.Call); isC && (isStaticCall(call, "container/heap", "Init") || isStaticCall(call, "container/heap", "Pop") || isStaticCall(call, "container/heap", "Fix")) {
						if _, reach := reachableFrom(j, func(q ssa.Instruction) bool { return q == a.Instr }, nil, nil); reach {
							beforeHeap = false
						}
					}
				})
				okk = fromLen && beforeHeap
			}
			why := "counted once, from len(cursors), before any cursor can be exhausted"
			if !okk {
				why = "numSources is written somewhere other than once in startIterator from len(cursors) before the heap is used: it no longer says how many sources have entries in the range"
			}
			o.add(c.fname(g), "write iterator.numSources", c.instrPos(a.Instr), okk, why)
		}
	}
	if nst == 0 {
		o.add(c.fname(si), "write iterator.numSources", c.pos(si.Pos()), false, "numSources is never set")
	}
	return o.list
}

func init() {
	register(&Rule{
		ID: "ITER-9",
		Doc: "A source is left out only when it has no entry: in segmentStack.startIterator, after `op, k, v := sc.Current()`, the next source is reached without the cursor having been appended " +
			"to iter.cursors only through the `op == 0` edge (the cursor's 'no entry' answer). A test on lengths (`len(k) == 0 && len(v) == 0`) drops a whole segment whose smallest entry is " +
			"the empty key with an empty value - Set(\"\",\"\") or Del(\"\") - from iteration and from the merger, while Get still finds it.",
		Props: []string{"C10", "C09", "C19"},
		Floor: 1,
		Run:   ruleIter9,
	})
}

func ruleIter9(c *Ctx) []*Ob {
	o := newObs(c, "ITER-9")
	si := c.Fn("(*segmentStack).startIterator")
	fCur := c.Field("iterator", "cursors")
	n := 0
	// startIterator itself, or a helper it calls that builds the per-segment cursor (loop body extracted)
	cands := []*ssa.Function{si}
	eachInstr(si, func(i ssa.Instruction) {
		if call, ok := i.(*ssa.Call); ok {
			if h := call.Call.StaticCallee(); h != nil && h.Pkg == c.Moss && h.Blocks != nil && h != si {
				cands = append(cands, h)
			}
		}
	})
	for _, f := range cands {
		fn := c.fname(f)
		eachInstr(f, func(i ssa.Instruction) {
			k, ok := i.(*ssa.Call)
			if !ok || !k.Call.IsInvoke() || k.Call.Method.Name() != "Current" || typeName(k.Call.Value.Type()) != "SegmentCursor" {
				return
			}
			if f != si && !returnsCursor(f) {
				return
			}
			n++
			var op ssa.Value
			if refs := k.Referrers(); refs != nil {
				for _, r := range *refs {
					if e, isE := r.(*ssa.Extract); isE && e.Index == 0 {
						op = e
					}
				}
			}
			bad := ""
			walk(after(k), walkOpts{noInline: true,
				visit: func(j ssa.Instruction, t *tracker) bool {
					if bad != "" {
						return true
					}
					if st, isSt := j.(*ssa.Store); isSt {
						if fv, _ := asFieldAddr(st.Addr); fv == fCur {
							return true // appended
						}
					}
					if j == ssa.Instruction(k) {
						bad = "the next source is reached"
						return true
					}
					if r, isR := j.(*ssa.Return); isR {
						// in a helper that hands the cursor back: "no cursor, no error" is the skip
						if f != si && len(r.Results) >= 1 && isNilConst(r.Results[0]) && (len(r.Results) < 2 || isNilConst(r.Results[len(r.Results)-1])) {
							bad = "the helper answers 'no cursor for this segment'"
						}
						return true
					}
					// leaving the loop over the segments without having appended: the heap is built without this source
					if call, isC := j.(*ssa.Call); isC && isStaticCall(call, "container/heap", "Init") {
						bad = "heap.Init is reached"
						return true
					}
					return false
				},
				edge: func(from, to *ssa.BasicBlock, label string, cond ssa.Value, onTrue bool, _ *tracker) bool {
					if bad != "" {
						return true
					}
					b, isB := cond.(*ssa.BinOp)
					if !isB || op == nil || (b.Op != token.EQL && b.Op != token.NEQ) {
						return false
					}
					x, y := b.X, b.Y
					if isZeroConst(x) {
						x, y = y, x
					}
					return isZeroConst(y) && sameValue(x, op) && (b.Op == token.EQL) == onTrue
				},
			})
			why := "a source is skipped only behind op == 0"
			if bad != "" {
				why = bad + " without this cursor having been appended and without the cursor having answered op == 0: a source whose first entry has an empty key and an empty value (or whatever else the test looks at) is dropped from the iteration although it has entries"
			}
			o.add(fn, "skip of a source after sc.Current()", c.instrPos(k), bad == "", why)
		})
	}
	if n == 0 {
		o.add(c.fname(si), "sc.Current()", c.pos(si.Pos()), false, "anchor lost: startIterator no longer asks the segment cursors for their first entry")
	}
	return o.list
}

// returnsCursor: the first result of f is a *cursor.
func returnsCursor(f *ssa.Function) bool {
	res := f.Signature.Results()
	return res.Len() >= 1 && typeName(res.At(0).Type()) == "cursor"
}
