package main

import (
	"encoding/json"

	"golang.org/x/tools/go/ssa"
)

type ssaFunc = ssa.Function

func jsonMarshal(v interface{}) ([]byte, error)   { return json.Marshal(v) }
func jsonUnmarshal(b []byte, v interface{}) error { return json.Unmarshal(b, v) }

func contains(l []string, s string) bool {
	for _, x := range l {
		if x == s {
			return true
		}
	}
	return false
}
