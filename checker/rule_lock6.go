package main

// LOCK-6: no blocking operation while a moss mutex is held (C16).

import (
	"fmt"
	"go/token"
	"go/types"

	"golang.org/x/tools/go/ssa"
)

func init() {
	register(&Rule{
		ID: "LOCK-6",
		Doc: "Nothing blocks while a mutex of moss is held: at no point where the lockset dataflow shows collection.m / Store.m (or another moss mutex) held does the code perform a channel send, " +
			"a channel receive, a select without default, time.Sleep or WaitGroup.Wait - directly or inside a moss function called at that point (static callees, depth 4, the callee analysed " +
			"with the lock held on entry). Close can close stopCh only under collection.m and the merger needs collection.m before it drains pingMergerCh, so a goroutine that blocks on a " +
			"channel with the lock held stops ExecuteBatch, Snapshot, Get, NotifyMerger and Close for good (D28). sync.Cond.Wait releases the mutex and is exempt; close(ch) and selects with " +
			"a default case do not block.",
		Props: []string{"C16", "C03"},
		Floor: 8,
		Run:   ruleLock6,
	})
}

type blockOp struct {
	i    ssa.Instruction
	what string
}

// blockingOpsIn: the blocking operations of f itself.
func blockingOpsIn(f *ssa.Function) []blockOp {
	var out []blockOp
	inSelect := map[ssa.Value]bool{}
	_ = inSelect
	eachInstr(f, func(i ssa.Instruction) {
		switch x := i.(type) {
		case *ssa.Send:
			out = append(out, blockOp{i, "send on " + accessPath(x.Chan)})
		case *ssa.UnOp:
			if x.Op == token.ARROW {
				out = append(out, blockOp{i, "receive from " + accessPath(x.X)})
			}
		case *ssa.Select:
			if x.Blocking {
				s := "select without default ("
				for k, st := range x.States {
					if k > 0 {
						s += ", "
					}
					if st.Dir == types.SendOnly {
						s += "send " + accessPath(st.Chan)
					} else {
						s += "recv " + accessPath(st.Chan)
					}
				}
				out = append(out, blockOp{i, s + ")"})
			}
		case *ssa.Call:
			if isStaticCall(x, "time", "Sleep") {
				out = append(out, blockOp{i, "time.Sleep"})
			}
			if sf := x.Call.StaticCallee(); sf != nil && sf.Name() == "Wait" && sf.Signature.Recv() != nil &&
				typeName(sf.Signature.Recv().Type()) == "WaitGroup" && typePkgPath(sf.Signature.Recv().Type()) == "sync" {
				out = append(out, blockOp{i, "WaitGroup.Wait"})
			}
		}
	})
	return out
}

func ruleLock6(c *Ctx) []*Ob {
	o := newObs(c, "LOCK-6")
	type memoKey struct {
		f     *ssa.Function
		entry uint8
	}
	type found struct {
		chain string
		pos   string
		locks uint8
	}
	memo := map[memoKey][]found{}
	lockNames := func(s uint8) string {
		out := ""
		for k, n := range lockTypes {
			if s&(1<<uint(k)) != 0 {
				if out != "" {
					out += ", "
				}
				out += n + ".m"
			}
		}
		return out
	}
	var under func(f *ssa.Function, entry uint8, depth int) []found
	under = func(f *ssa.Function, entry uint8, depth int) []found {
		k := memoKey{f, entry}
		if r, ok := memo[k]; ok {
			return r
		}
		memo[k] = nil // recursion guard
		lf := computeLockFlow(c, f, entry)
		var out []found
		for _, b := range blockingOpsIn(f) {
			if s := lf.at(b.i); s != 0 {
				out = append(out, found{b.what, c.instrPos(b.i), s})
			}
		}
		if depth > 0 {
			eachInstr(f, func(i ssa.Instruction) {
				call, ok := i.(*ssa.Call)
				if !ok {
					return
				}
				h := call.Call.StaticCallee()
				if h == nil || h.Pkg != c.Moss || h.Blocks == nil || c.isHarness(h) {
					return
				}
				s := lf.at(i)
				if s == 0 {
					return
				}
				for _, fd := range under(h, s, depth-1) {
					out = append(out, found{"call " + h.Name() + "() -> " + fd.chain, fd.pos, fd.locks})
				}
			})
		}
		memo[k] = out
		return out
	}
	for _, f := range c.Funcs {
		if c.isHarness(f) {
			continue
		}
		fn := c.fname(f)
		lf := computeLockFlow(c, f, 0)
		// direct operations and calls made with a lock held
		bad := map[string]bool{}
		for _, fd := range under(f, 0, 4) {
			key := fd.chain
			if bad[key] {
				continue
			}
			bad[key] = true
			o.add(fn, "blocking with a lock held: "+fd.chain, fd.pos, false,
				fmt.Sprintf("%s is held here; the operation can block indefinitely, and everything that needs the mutex (Close closes stopCh under it) blocks behind it", lockNames(fd.locks)))
		}
		// the obligations that hold: every blocking operation of f performed without a lock
		for _, b := range blockingOpsIn(f) {
			if lf.at(b.i) == 0 {
				o.add(fn, "no lock held at "+b.what, c.instrPos(b.i), true, "the lockset at this operation is empty")
			}
		}
	}
	return o.list
}
