package main

// R-DUR: publish only what is durable, in the right order (C04, C05, C06, C07, C12).

import (
	"fmt"
	"go/token"
	"go/types"

	"golang.org/x/tools/go/ssa"
)

func init() {
	register(&Rule{
		ID: "DUR-1",
		Doc: "Publish after persist: every store of a non-nil value V to Store.footer on a shared Store is preceded on every path by a call " +
			"persistFooter(_, V, _) with the same value V and lies behind the nil-error edge of that call. Store literals (openStore) take their footer " +
			"from ReadFooter behind its nil-error edge or from a Footer literal without SegmentLocs.",
		Props: []string{"C04", "C05", "C06", "C07", "C12"},
		Floor: 3,
		Run:   ruleDur1,
	})
	register(&Rule{
		ID: "DUR-2",
		Doc: "Sync bracket: in persistFooter, on every path from entry to the call of persistFooterUnsynced a File.Sync on the same file occurs and the call lies behind " +
			"its nil-error edge; on every path from that call's nil-error edge to a return a File.Sync on the same file occurs; both only skippable along the " +
			"options.NoSync == true edge. persistFooterUnsynced has exactly one caller (persistFooter). snapshotRevert passes zero-valued options (sync on).",
		Props: []string{"C04", "C05", "C12"},
		Floor: 2,
		Run:   ruleDur2,
	})
	register(&Rule{
		ID: "DUR-3",
		Doc: "Data before footer: in persist the call persistSegments, and in compact the call writeSegments, precedes persistFooter on every path and persistFooter lies behind " +
			"its nil-error edge; in writeSegments every return of a non-nil footer is preceded by, and behind the nil-error edges of, mergeInto and Flush and Stop of both section writers.",
		Props: []string{"C04", "C05", "C07"},
		Floor: 3,
		Run:   ruleDur3,
	})
	register(&Rule{
		ID: "DUR-4",
		Doc: "Unlink discipline: the only call sites of removeFileOnClose / os.Remove are (i) compact abandoning the file it created itself with startFileLOCKED, " +
			"under partialCompactStart == 0 and on a path that returns an error; (ii) compactMaybe scheduling the previous footer's file, behind compact(...)'s nil-error edge and under " +
			"partialCompactStart == 0; (iii) startFileLOCKED removing the file it just created, on the failure edge of persistHeader; (iv) the after-close callback installed by " +
			"removeFileOnClose; (v) removeFiles, called only by openStore behind ReadFooter's nil-error edge. Any other unlink site is a violation.",
		Props: []string{"C02", "C05", "C06", "C07", "C15"},
		Floor: 3,
		Run:   ruleDur4,
	})
}

func init() {
	register(&Rule{
		ID: "DEL-1",
		Doc: "Tombstone retention mode: deletion markers may be dropped only when nothing older is retained underneath, which only compact knows (splice point). So compact passes " +
			"`partialCompactStart != 0` as writeSegments' includeDeletes; writeSegments hands its own includeDeletes parameter, unchanged, to mergeInto and to its recursive calls for child " +
			"collections; the in-memory merger (segmentStack.merge) always passes true.",
		Props: []string{"C07", "C11"},
		Floor: 2,
		Run:   ruleDel1,
	})
}

func ruleDel1(c *Ctx) []*Ob {
	o := newObs(c, "DEL-1")
	compact := c.Fn("(*Store).compact")
	ws := c.Fn("(*Store).writeSegments")
	mi := c.Fn("(*segmentStack).mergeInto")
	merge := c.Fn("(*segmentStack).merge")
	pIdx := func(f *ssa.Function, name string) int {
		for k, p := range f.Params {
			if p.Name() == name {
				return k
			}
		}
		return -1
	}
	wsIdx := pIdx(ws, "includeDeletes")
	miIdx := pIdx(mi, "includeDeletions")
	if miIdx < 0 {
		o.add(c.fname(mi), "parameter includeDeletions", c.pos(mi.Pos()), false, "anchor lost")
		return o.list
	}
	if wsIdx < 0 {
		o.add(c.fname(ws), "parameter includeDeletes", c.pos(ws.Pos()), false,
			"writeSegments no longer receives the tombstone mode from compact: it cannot know whether older segments are retained under the ones it rewrites (child collections are always called with a nil base)")
	} else {
		for _, k := range callsToFn(compact, ws) {
			arg := k.Call.Args[wsIdx]
			ok := false
			if p := paramNamed(compact, "partialCompactStart"); p != nil {
				ok = isNonZeroTest(arg, p, true)
			}
			why := "tombstones are kept exactly for partial compactions (partialCompactStart != 0)"
			if !ok {
				why = "the tombstone mode handed to writeSegments is " + accessPath(arg) + ", not `partialCompactStart != 0`: a partial compaction may drop deletion markers that still shadow retained segments (deleted keys come back)"
			}
			o.add(c.fname(compact), "writeSegments(includeDeletes)", c.instrPos(k), ok, why)
		}
		for _, k := range callsToFn(ws, ws) {
			ok := k.Call.Args[wsIdx] == ssa.Value(ws.Params[wsIdx])
			why := "the recursive call for a child collection passes the same mode"
			if !ok {
				why = "the recursive call for a child collection passes " + accessPath(k.Call.Args[wsIdx]) + " instead of its own includeDeletes: children are compacted in a different tombstone mode than their parent"
			}
			o.add(c.fname(ws), "recursive writeSegments(includeDeletes)", c.instrPos(k), ok, why)
		}
	}
	for _, k := range callsToFn(ws, mi) {
		arg := k.Call.Args[miIdx]
		ok := wsIdx >= 0 && arg == ssa.Value(ws.Params[wsIdx])
		why := "mergeInto receives writeSegments' own includeDeletes parameter"
		if !ok {
			why = "mergeInto's includeDeletions is " + accessPath(arg) + " instead of the mode decided by compact: for child collections (whose base is always nil) tombstones are dropped although older child segments are retained by spliceFooter"
		}
		o.add(c.fname(ws), "mergeInto(includeDeletions)", c.instrPos(k), ok, why)
	}
	for _, k := range callsToFn(merge, mi) {
		v, isC := constBool(k.Call.Args[miIdx])
		ok := isC && v
		why := "the in-memory merger always keeps tombstones (older sections and the lower level lie below)"
		if !ok {
			why = "the in-memory merger may drop tombstones: keys deleted in memory reappear from the lower level"
		}
		o.add(c.fname(merge), "mergeInto(includeDeletions=true)", c.instrPos(k), ok, why)
	}
	return o.list
}

// isNonZeroTest: v is a boolean equivalent to (p != 0) when want, or (p == 0) when !want.
func isNonZeroTest(v ssa.Value, p ssa.Value, want bool) bool {
	switch x := v.(type) {
	case *ssa.UnOp:
		if x.Op == token.NOT {
			return isNonZeroTest(x.X, p, !want)
		}
	case *ssa.BinOp:
		if x.Op != token.EQL && x.Op != token.NEQ {
			return false
		}
		var val, k ssa.Value = x.X, x.Y
		if _, isC := val.(*ssa.Const); isC {
			val, k = k, val
		}
		if n, isInt := constInt(k); !isInt || n != 0 {
			return false
		}
		if !sameValue(val, p) {
			return false
		}
		return (x.Op == token.NEQ) == want
	}
	return false
}

// callsToFn: *ssa.Call instructions in f whose static callee is target.
func callsToFn(f, target *ssa.Function) []*ssa.Call {
	var out []*ssa.Call
	eachInstr(f, func(i ssa.Instruction) {
		if call, ok := i.(*ssa.Call); ok && call.Call.StaticCallee() == target {
			out = append(out, call)
		}
	})
	return out
}

func allCallInstrsTo(c *Ctx, target *ssa.Function) []callSite {
	var out []callSite
	for _, f := range c.Funcs {
		eachInstr(f, func(i ssa.Instruction) {
			if ci, ok := i.(ssa.CallInstruction); ok && ci.Common().StaticCallee() == target {
				out = append(out, callSite{f, ci})
			}
		})
	}
	return out
}

// sameValue: a and b are the same SSA value modulo trivial copies.
func sameValue(a, b ssa.Value) bool {
	if a == b {
		return true
	}
	for _, x := range origins(a) {
		for _, y := range origins(b) {
			if x == y {
				return true
			}
		}
	}
	return false
}

func precededAndGuardedBy(f *ssa.Function, k *ssa.Call, s ssa.Instruction) (bool, string) {
	if !mustPrecede(f, s, func(i ssa.Instruction) bool { return i == ssa.Instruction(k) }, nil) {
		return false, "a path from the function entry reaches it without passing the call"
	}
	if !guardedBySuccess(k, s) {
		return false, "a path from the call reaches it although the call's error was non-nil or unchecked"
	}
	return true, ""
}

func ruleDur1(c *Ctx) []*Ob {
	o := newObs(c, "DUR-1")
	fFooter := c.Field("Store", "footer")
	persistFooter := c.Fn("(*Store).persistFooter")
	readFooter := c.Fn("ReadFooter")
	fSegLocs := c.Field("Footer", "SegmentLocs")
	for _, f := range c.Funcs {
		fn := c.fname(f)
		for _, a := range fieldAccesses(f, func(v *types.Var) bool { return v == fFooter }) {
			if a.Kind != "store" {
				continue
			}
			st := a.Instr.(*ssa.Store)
			if isNilConst(st.Val) {
				o.trivial(fn, "store Store.footer = nil", c.instrPos(st), "clearing the footer publishes nothing")
				continue
			}
			if isFreshAlloc(a.Base) {
				// &Store{footer: X}
				ok := true
				why := ""
				// a constructor helper (newStore(..., footer, ...)): judge the footer argument at each call site
				type src struct {
					og   ssa.Value
					in   *ssa.Function
					sink ssa.Instruction
				}
				var srcs []src
				for _, og := range origins(st.Val) {
					if p, isP := og.(*ssa.Parameter); isP && p.Parent() == f && !isExportedRoot(f) {
						idx := -1
						for k, q := range f.Params {
							if q == p {
								idx = k
							}
						}
						lifted := false
						for _, cs := range c.Callers(f) {
							if idx >= 0 && idx < len(cs.Instr.Common().Args) {
								for _, og2 := range origins(cs.Instr.Common().Args[idx]) {
									srcs = append(srcs, src{og2, cs.Caller, cs.Instr})
									lifted = true
								}
							}
						}
						if lifted {
							continue
						}
					}
					srcs = append(srcs, src{og, f, st})
				}
				for _, sr := range srcs {
					og := sr.og
					switch x := og.(type) {
					case *ssa.Extract:
						call, isCall := x.Tuple.(*ssa.Call)
						if isCall && call.Call.StaticCallee() == readFooter && x.Index == 0 {
							if g, w := precededAndGuardedBy(sr.in, call, sr.sink); !g {
								ok, why = false, "footer from ReadFooter: "+w
							} else if why == "" {
								why = "footer is ReadFooter's result behind its nil-error edge"
							}
							continue
						}
						ok, why = false, "footer of the new Store comes from "+accessPath(og)
					case *ssa.Alloc:
						if typeName(x.Type()) == "Footer" && !allocFieldStored(x, fSegLocs) {
							if why == "" {
								why = "footer is a fresh Footer literal without SegmentLocs (empty store)"
							}
							continue
						}
						ok, why = false, "footer literal of the new Store carries SegmentLocs that were never persisted"
					default:
						ok, why = false, "footer of the new Store comes from "+accessPath(og)
					}
				}
				o.add(fn, "literal Store{footer}", c.instrPos(st), ok, why)
				continue
			}
			// shared store: need persistFooter(_, V, _) success
			var found *ssa.Call
			for _, k := range callsToFn(f, persistFooter) {
				if len(k.Call.Args) >= 3 && sameValue(k.Call.Args[2], st.Val) {
					found = k
				}
			}
			construct := "store Store.footer = " + accessPath(st.Val)
			if found == nil {
				// a helper that installs its own parameter: the obligation moves to its call sites
				if p, isP := st.Val.(*ssa.Parameter); isP && !isExportedRoot(f) {
					idx := -1
					for k, q := range f.Params {
						if q == p {
							idx = k
						}
					}
					sites := c.Callers(f)
					okAll := len(sites) > 0 && idx >= 0
					why := ""
					for _, s := range sites {
						call, isCall := s.Instr.(*ssa.Call)
						if !isCall || idx >= len(call.Call.Args) {
							okAll = false
							why = "installed through a deferred / go call"
							break
						}
						arg := call.Call.Args[idx]
						var k0 *ssa.Call
						for _, k := range callsToFn(s.Caller, persistFooter) {
							if len(k.Call.Args) >= 3 && sameValue(k.Call.Args[2], arg) {
								k0 = k
							}
						}
						if k0 == nil {
							okAll = false
							why = c.fname(s.Caller) + " hands a footer to " + f.Name() + " that it never persisted"
							break
						}
						if g, w := precededAndGuardedBy(s.Caller, k0, call); !g {
							okAll = false
							why = fmt.Sprintf("%s calls %s at %s: %s", c.fname(s.Caller), f.Name(), c.instrPos(call), w)
							break
						}
						why = fmt.Sprintf("helper: every caller (%s, …) calls it behind the nil-error edge of persistFooter on the same footer", c.fname(s.Caller))
					}
					if !okAll && why == "" {
						why = "the helper has no callers"
					}
					o.add(fn, construct, c.instrPos(st), okAll, why)
					continue
				}
				o.add(fn, construct, c.instrPos(st), false,
					"the value published as the store's footer was never handed to persistFooter in this function")
				continue
			}
			ok, w := precededAndGuardedBy(f, found, st)
			why := fmt.Sprintf("behind the nil-error edge of persistFooter(%s) at %s", accessPath(found.Call.Args[2]), c.instrPos(found))
			if !ok {
				why = fmt.Sprintf("persistFooter at %s: %s", c.instrPos(found), w)
			}
			o.add(fn, construct, c.instrPos(st), ok, why)
		}
	}
	return o.list
}

// allocFieldStored: some store writes field fv of the struct allocated by a.
func allocFieldStored(a *ssa.Alloc, fv *types.Var) bool {
	found := false
	if refs := a.Referrers(); refs != nil {
		for _, r := range *refs {
			if fa, ok := r.(*ssa.FieldAddr); ok && fieldAddrVar(fa) == fv {
				if rr := fa.Referrers(); rr != nil {
					for _, u := range *rr {
						if st, ok := u.(*ssa.Store); ok && st.Addr == fa {
							found = true
						}
					}
				}
			}
		}
	}
	return found
}

// flagEdge returns a skipEdge predicate that is true for the edge on which
// the boolean struct field fv (loaded through any base) has value want.
func flagEdge(fv *types.Var, want bool) func(from, to *ssa.BasicBlock, cond ssa.Value, onTrue bool) bool {
	return func(from, to *ssa.BasicBlock, cond ssa.Value, onTrue bool) bool {
		neg := false
		for {
			u, ok := cond.(*ssa.UnOp)
			if !ok || u.Op != token.NOT {
				break
			}
			neg = !neg
			cond = u.X
		}
		f, _ := loadedField(cond)
		if f != fv {
			return false
		}
		val := onTrue
		if neg {
			val = !val
		}
		return val == want
	}
}

func isSyncOn(file ssa.Value) func(ssa.Instruction) bool {
	return func(i ssa.Instruction) bool {
		ci, ok := i.(*ssa.Call)
		if !ok {
			return false
		}
		if p, isP := writePrimitive(ci); !isP || p != "File.Sync" {
			return false
		}
		if sameValue(ci.Call.Value, file) {
			return true
		}
		// inside a helper the walker descended into (`syncUnlessNoSync(file, options)`): the Sync is on the helper's
		// parameter, and every call of the helper in file's function passes that very file for it
		fileFn := valueParent(file)
		for _, og := range origins(ci.Call.Value) {
			pp, isP := og.(*ssa.Parameter)
			if !isP || fileFn == nil || pp.Parent() == fileFn {
				continue
			}
			h := pp.Parent()
			pi := -1
			for k, q := range h.Params {
				if q == pp {
					pi = k
				}
			}
			ks := callsToFn(fileFn, h)
			all := len(ks) > 0 && pi >= 0
			for _, k := range ks {
				if pi >= len(k.Call.Args) || !sameValue(k.Call.Args[pi], file) {
					all = false
				}
			}
			if all {
				return true
			}
		}
		return false
	}
}

// valueParent: the function an SSA value belongs to (nil for constants / globals).
func valueParent(v ssa.Value) *ssa.Function {
	switch x := v.(type) {
	case *ssa.Parameter:
		return x.Parent()
	case *ssa.FreeVar:
		return x.Parent()
	case ssa.Instruction:
		return x.Parent()
	}
	return nil
}

func ruleDur2(c *Ctx) []*Ob {
	o := newObs(c, "DUR-2")
	pf := c.Fn("(*Store).persistFooter")
	pfu := c.Fn("(*Store).persistFooterUnsynced")
	fNoSync := c.Field("StorePersistOptions", "NoSync")
	fn := c.fname(pf)
	noSyncTrue := flagEdge(fNoSync, true)

	// who-may-call persistFooterUnsynced
	sites := allCallInstrsTo(c, pfu)
	for _, s := range sites {
		ok := s.Caller == pf
		why := "called from persistFooter, inside the sync bracket"
		if !ok {
			why = "persistFooterUnsynced is called outside persistFooter: the footer write is not bracketed by syncs"
		}
		o.add(c.fname(s.Caller), "call persistFooterUnsynced", c.instrPos(s.Instr), ok, why)
	}
	ks := callsToFn(pf, pfu)
	if len(ks) == 0 {
		o.add(fn, "call persistFooterUnsynced", c.pos(pf.Pos()), false, "persistFooter no longer writes the footer through persistFooterUnsynced: anchor lost")
		return o.list
	}
	for _, k := range ks {
		file := k.Call.Args[1]
		isSync := isSyncOn(file)
		// (a) a sync precedes the footer write
		ok := mustPrecede(pf, k, isSync, noSyncTrue)
		why := "every path to the footer write with NoSync == false passes file.Sync()"
		if !ok {
			why = "a path with NoSync == false reaches the footer write without a preceding file.Sync(): the footer may reach the disk before the segments it points to"
		}
		o.add(fn, "Sync before footer write", c.instrPos(k), ok, why)
		// (b) the footer write only happens when that sync succeeded
		okb := true
		whyb := "the footer write lies behind the nil-error edge of every preceding Sync"
		eachInstr(pf, func(i ssa.Instruction) {
			if !isSync(i) {
				return
			}
			s := i.(*ssa.Call)
			if _, reach := reachableFrom(s, func(j ssa.Instruction) bool { return j == ssa.Instruction(k) }, nil, nil); !reach {
				return
			}
			if !guardedBySuccess(s, k) {
				okb = false
				whyb = fmt.Sprintf("the footer write is reachable from the Sync at %s although that Sync failed or was not checked", c.instrPos(s))
			}
		})
		o.add(fn, "footer write only after successful Sync", c.instrPos(k), okb, whyb)
		// (c) a sync follows the footer write before any return on the success path
		okc := true
		whyc := "every path from a successful footer write to a return with NoSync == false passes file.Sync()"
		idx := errResultIndex(k.Call.Signature())
		var seed []ssa.Value
		if k.Call.Signature().Results().Len() == 1 {
			seed = []ssa.Value{k}
		}
		walk(after(k), walkOpts{origin: k, originIdx: idx, seed: seed,
			visit: func(i ssa.Instruction, t *tracker) bool {
				if isSync(i) {
					return true
				}
				if _, isRet := i.(*ssa.Return); isRet {
					okc = false
					whyc = fmt.Sprintf("the return at %s is reachable after a successful footer write with NoSync == false without file.Sync(): Persist reports success for a footer that is not durable", c.instrPos(i))
					return true
				}
				return false
			},
			edge: func(from, to *ssa.BasicBlock, label string, cond ssa.Value, onTrue bool, _ *tracker) bool {
				return label == "nonnil" || noSyncTrue(from, to, cond, onTrue)
			}})
		o.add(fn, "Sync after footer write", c.instrPos(k), okc, whyc)
	}
	// snapshotRevert passes zero options to persistFooter
	sr := c.Fn("(*Store).snapshotRevert")
	for _, k := range callsToFn(sr, pf) {
		arg := k.Call.Args[3]
		ok := false
		why := "options argument is " + accessPath(arg)
		if cst, isC := arg.(*ssa.Const); isC && cst.Value == nil {
			ok, why = true, "options argument is the zero StorePersistOptions (NoSync false: revert is synced)"
		} else if ld, isLd := arg.(*ssa.UnOp); isLd && ld.Op == token.MUL {
			if a, isA := ld.X.(*ssa.Alloc); isA && !allocFieldStored(a, fNoSync) && allocOnlyZeroStores(a) {
				ok, why = true, "options argument is a zero-valued local StorePersistOptions"
			}
		}
		if !ok {
			why = "snapshotRevert must sync: " + why + " may carry NoSync == true"
		}
		o.add(c.fname(sr), "persistFooter options are zero (sync on)", c.instrPos(k), ok, why)
	}
	return o.list
}

func allocOnlyZeroStores(a *ssa.Alloc) bool {
	ok := true
	if refs := a.Referrers(); refs != nil {
		for _, r := range *refs {
			if st, isSt := r.(*ssa.Store); isSt && st.Addr == a {
				if cst, isC := st.Val.(*ssa.Const); !isC || cst.Value != nil {
					ok = false
				}
			}
		}
	}
	return ok
}

func ruleDur3(c *Ctx) []*Ob {
	o := newObs(c, "DUR-3")
	pf := c.Fn("(*Store).persistFooter")
	order := func(fname, first string) {
		f := c.Fn(fname)
		k1s := callsToFn(f, c.Fn(first))
		k2s := callsToFn(f, pf)
		if len(k1s) == 0 || len(k2s) == 0 {
			o.add(fname, "call "+first+" before persistFooter", c.pos(f.Pos()), false, "anchor lost: the function no longer calls both")
			return
		}
		for _, k2 := range k2s {
			ok := false
			why := ""
			for _, k1 := range k1s {
				g, w := precededAndGuardedBy(f, k1, k2)
				if g {
					ok = true
					why = fmt.Sprintf("persistFooter lies behind the nil-error edge of %s at %s", first, c.instrPos(k1))
					break
				}
				why = fmt.Sprintf("%s at %s: %s", first, c.instrPos(k1), w)
			}
			o.add(fname, "call "+first+" before persistFooter", c.instrPos(k2), ok, why)
		}
	}
	order("(*Store).persist", "(*Store).persistSegments")
	order("(*Store).compact", "(*Store).writeSegments")

	// writeSegments: non-nil footer returns behind mergeInto, Flush, Stop x 2
	ws := c.Fn("(*Store).writeSegments")
	wsn := c.fname(ws)
	fKvs := c.Field("compactWriter", "kvsWriter")
	fBuf := c.Field("compactWriter", "bufWriter")
	flush := c.Fn("(*bufferedSectionWriter).Flush")
	stop := c.Fn("(*bufferedSectionWriter).Stop")
	mergeInto := c.Fn("(*segmentStack).mergeInto")
	var rets []*ssa.Return
	eachInstr(ws, func(i ssa.Instruction) {
		if r, ok := i.(*ssa.Return); ok && len(r.Results) == 2 && !returnsNil(r.Results[0]) {
			rets = append(rets, r)
		}
	})
	if len(rets) == 0 {
		o.add(wsn, "return of a non-nil footer", c.pos(ws.Pos()), false, "anchor lost: writeSegments never returns a footer")
	}
	type need struct {
		name   string
		callee *ssa.Function
		recv   *types.Var
	}
	needs := []need{
		{"mergeInto", mergeInto, nil},
		{"kvsWriter.Flush", flush, fKvs}, {"bufWriter.Flush", flush, fBuf},
		{"kvsWriter.Stop", stop, fKvs}, {"bufWriter.Stop", stop, fBuf},
	}
	for _, r := range rets {
		for _, nd := range needs {
			ok := false
			why := "no such call in writeSegments"
			for _, k := range callsToFn(ws, nd.callee) {
				if nd.recv != nil {
					fv, _ := loadedField(k.Call.Args[0])
					if fv != nd.recv {
						continue
					}
				}
				g, w := precededAndGuardedBy(ws, k, r)
				if g {
					ok = true
					why = fmt.Sprintf("the footer return lies behind the nil-error edge of %s at %s", nd.name, c.instrPos(k))
					break
				}
				why = fmt.Sprintf("%s at %s: %s", nd.name, c.instrPos(k), w)
			}
			o.add(wsn, "footer returned only after successful "+nd.name, c.instrPos(r), ok, why)
		}
	}
	return o.list
}

// returnsNil: the returned value is the nil constant (possibly through the
// spilled named-result cell).
func returnsNil(v ssa.Value) bool {
	all := true
	for _, og := range origins(v) {
		if !isNilConst(og) {
			all = false
		}
	}
	return all
}

func ruleDur4(c *Ctx) []*Ob {
	o := newObs(c, "DUR-4")
	rfoc := c.Fn("(*Store).removeFileOnClose")
	compact := c.Fn("(*Store).compact")
	compactMaybe := c.Fn("(*Store).compactMaybe")
	startFile := c.Fn("(*Store).startFileLOCKED")
	persistHeader := c.Fn("(*Store).persistHeader")
	removeFiles := c.Fn("removeFiles")
	openStore := c.Fn("openStore")
	readFooter := c.Fn("ReadFooter")
	onAfterClose := c.Fn("(*FileRef).OnAfterClose")

	isUnlink := func(ci ssa.CallInstruction) (string, bool) {
		if ci.Common().StaticCallee() == rfoc {
			return "removeFileOnClose", true
		}
		for _, n := range []string{"Remove", "RemoveAll"} {
			if isStaticCall(ci, "os", n) {
				return "os." + n, true
			}
		}
		return "", false
	}
	// the guard "partialCompactStart == 0" on a parameter/local value v
	zeroEdge := func(v ssa.Value) func(from, to *ssa.BasicBlock, cond ssa.Value, onTrue bool) bool {
		return func(from, to *ssa.BasicBlock, cond ssa.Value, onTrue bool) bool {
			b, ok := cond.(*ssa.BinOp)
			if !ok || (b.Op != token.EQL && b.Op != token.NEQ) {
				return false
			}
			var x, k ssa.Value = b.X, b.Y
			if _, isC := x.(*ssa.Const); isC {
				x, k = k, x
			}
			if n, isInt := constInt(k); !isInt || n != 0 {
				return false
			}
			if !sameValue(x, v) {
				return false
			}
			zeroOnTrue := b.Op == token.EQL
			return zeroOnTrue == onTrue
		}
	}
	never := func(ssa.Instruction) bool { return false }

	for _, f := range c.Funcs {
		fn := c.fname(f)
		eachInstr(f, func(i ssa.Instruction) {
			ci, ok := i.(ssa.CallInstruction)
			if !ok {
				return
			}
			name, isU := isUnlink(ci)
			if !isU {
				return
			}
			construct := "call " + name + "(" + accessPath(ci.Common().Args[len(ci.Common().Args)-1]) + ")"
			switch {
			case root(f) == compact && f != compact && name == "removeFileOnClose":
				// (i') the same clean-up moved into a closure of compact (`abandon := func(err error) error {...}`)
				arg := ci.Common().Args[1]
				own := false
				var leafs []ssa.Value
				for _, og := range origins(arg) {
					leafs = append(leafs, og)
					if ld, isLd := og.(*ssa.UnOp); isLd && ld.Op == token.MUL {
						if fv, isFV := ld.X.(*ssa.FreeVar); isFV {
							for _, w := range capturedCellValues(fv) {
								leafs = append(leafs, origins(w)...)
							}
						}
					}
				}
				for _, og := range leafs {
					if e, isE := og.(*ssa.Extract); isE {
						if call, isC := e.Tuple.(*ssa.Call); isC && call.Call.StaticCallee() == startFile {
							own = true
						}
					}
				}
				pcs := paramNamed(compact, "partialCompactStart")
				zeroDeep := func(from, to *ssa.BasicBlock, cond ssa.Value, onTrue bool) bool {
					b, ok := cond.(*ssa.BinOp)
					if !ok || (b.Op != token.EQL && b.Op != token.NEQ) {
						return false
					}
					var x, k ssa.Value = b.X, b.Y
					if _, isC := x.(*ssa.Const); isC {
						x, k = k, x
					}
					if n, isInt := constInt(k); !isInt || n != 0 {
						return false
					}
					isP := false
					for _, og := range originsDeepIn(c, x, compact) {
						if og == ssa.Value(pcs) {
							isP = true
						}
					}
					return isP && (b.Op == token.EQL) == onTrue
				}
				switch {
				case !own:
					o.add(fn, construct, c.instrPos(i), false, "a closure of compact schedules the removal of a file that compact did not create itself with startFileLOCKED")
				case pcs == nil || !mustPrecede(f, i, never, zeroDeep):
					o.add(fn, construct, c.instrPos(i), false,
						"reachable with partialCompactStart != 0: a failed partial compaction would schedule the removal of the store's only data file (frefCompact is then the reused current file)")
				default:
					// the closure hands its error argument back, and compact calls it only with a non-nil error and returns what it returns
					bad := closureOnlyOnErrorPaths(c, compact, f)
					why := "own new file (startFileLOCKED), under partialCompactStart == 0, in a clean-up closure that compact only calls with a non-nil error and whose result it returns"
					if bad != "" {
						why = bad
					}
					o.add(fn, construct, c.instrPos(i), bad == "", why)
				}
			case f == compact && name == "removeFileOnClose":
				arg := ci.Common().Args[1]
				// (i) own new file, under partialCompactStart == 0, on an error path
				own := false
				for _, og := range origins(arg) {
					if e, isE := og.(*ssa.Extract); isE {
						if call, isC := e.Tuple.(*ssa.Call); isC && call.Call.StaticCallee() == startFile {
							own = true
						}
					}
				}
				if !own {
					o.add(fn, construct, c.instrPos(i), false, "compact schedules the removal of a file it did not create itself with startFileLOCKED")
					return
				}
				pcs := paramNamed(f, "partialCompactStart")
				if pcs == nil {
					o.add(fn, construct, c.instrPos(i), false, "anchor lost: parameter partialCompactStart")
					return
				}
				if !mustPrecede(f, i, never, zeroEdge(pcs)) {
					// reachable even when the ==0 edges are removed
					o.add(fn, construct, c.instrPos(i), false,
						"reachable with partialCompactStart != 0: a failed partial compaction would schedule the removal of the store's only data file (frefCompact is then the reused current file)")
					return
				}
				// error path: every return reachable from here returns a non-nil error
				bad, reach := reachableFrom(i, func(j ssa.Instruction) bool {
					r, isR := j.(*ssa.Return)
					return isR && returnsNil(r.Results[len(r.Results)-1])
				}, nil, nil)
				if reach {
					o.add(fn, construct, c.instrPos(i), false,
						"a success return ("+c.instrPos(bad)+") is reachable after scheduling the removal of the new compaction file")
					return
				}
				o.add(fn, construct, c.instrPos(i), true, "own new file (startFileLOCKED), under partialCompactStart == 0, on a path that returns an error")
			case f == compactMaybe && name == "removeFileOnClose":
				var ks []*ssa.Call = callsToFn(f, compact)
				ok := false
				why := "compactMaybe does not call compact"
				for _, k := range ks {
					g, w := precededAndGuardedBy(f, k, i)
					if !g {
						why = "removal of the previous file: compact at " + c.instrPos(k) + ": " + w
						continue
					}
					pcs := k.Call.Args[2]
					if mustPrecede(f, i, never, zeroEdge(pcs)) {
						ok = true
						why = "previous footer's file, behind the nil-error edge of compact and under partialCompactStart == 0 (full compaction into a new file)"
					} else {
						why = "reachable with partialCompactStart != 0: after a partial compaction the current data file itself would be scheduled for removal"
					}
				}
				o.add(fn, construct, c.instrPos(i), ok, why)
			case f == startFile && name == "os.Remove":
				ok := false
				why := "startFileLOCKED does not call persistHeader"
				for _, k := range callsToFn(f, persistHeader) {
					// must not be reachable along the nil edge
					idx := errResultIndex(k.Call.Signature())
					reached := false
					walk(after(k), walkOpts{origin: k, originIdx: idx, seed: []ssa.Value{k},
						visit: func(j ssa.Instruction, t *tracker) bool {
							if j == i {
								reached = true
								return true
							}
							return false
						},
						edge: func(from, to *ssa.BasicBlock, label string, cond ssa.Value, onTrue bool, _ *tracker) bool {
							return label == "nonnil"
						}})
					pre := mustPrecede(f, i, func(j ssa.Instruction) bool { return j == ssa.Instruction(k) }, nil)
					if !reached && pre {
						ok, why = true, "removes the file just created, only on the failure edge of persistHeader"
					} else {
						why = "the freshly created data file can be removed although persistHeader succeeded (or before it ran)"
					}
				}
				o.add(fn, construct, c.instrPos(i), ok, why)
			case root(f) == rfoc && f != rfoc && name == "os.Remove":
				// (iv) closure chain: f is (transitively) a closure of removeFileOnClose, the outermost
				// closure must only be passed to OnAfterClose
				outer := f
				for outer.Parent() != rfoc {
					outer = outer.Parent()
				}
				ok := true
				why := "inside the after-close callback installed by removeFileOnClose: runs after the last reference is gone"
				eachInstr(rfoc, func(j ssa.Instruction) {
					mc, isMC := j.(*ssa.MakeClosure)
					if !isMC || mc.Fn != outer {
						return
					}
					if refs := mc.Referrers(); refs != nil {
						for _, r := range *refs {
							call, isCall := r.(ssa.CallInstruction)
							if !isCall || call.Common().StaticCallee() != onAfterClose {
								ok = false
								why = "the unlinking closure is used other than as an OnAfterClose callback (" + c.instrPos(r) + ")"
							} else if _, isPlain := r.(*ssa.Call); !isPlain {
								ok = false
								why = "OnAfterClose registration is deferred or started as a goroutine"
							}
						}
					}
				})
				// and every closure level below outer is only started from its parent
				o.add(fn, construct, c.instrPos(i), ok, why)
			case f == removeFiles && name == "os.Remove":
				ok := true
				why := "removeFiles is called only by openStore behind ReadFooter's nil-error edge"
				sites := c.Callers(removeFiles)
				if len(sites) == 0 {
					why = "removeFiles has no callers"
				}
				for _, s := range sites {
					if s.Caller != openStore {
						ok, why = false, "removeFiles is called from "+c.fname(s.Caller)+": an unlisted unlink site"
						break
					}
					g := false
					for _, k := range callsToFn(openStore, readFooter) {
						if gg, _ := precededAndGuardedBy(openStore, k, s.Instr); gg {
							g = true
						}
					}
					if !g {
						ok, why = false, "openStore removes the other data files without having validated the chosen file with ReadFooter"
					}
				}
				o.add(fn, construct, c.instrPos(i), ok, why)
			default:
				o.add(fn, construct, c.instrPos(i), false, "unlisted unlink site: files may only be removed at the five audited places")
			}
		})
	}
	return o.list
}

func paramNamed(f *ssa.Function, name string) *ssa.Parameter {
	for _, p := range f.Params {
		if p.Name() == name {
			return p
		}
	}
	return nil
}

func init() {
	register(&Rule{
		ID: "DUR-5",
		Doc: "The library never turns syncing off on the caller's behalf: every store into StorePersistOptions.NoSync in library code stores the constant false " +
			"(compact forcing a sync when CompactionSync is set). A computed or true value would let a round whose caller asked for a sync publish an unsynced footer.",
		Props: []string{"C05", "C04"},
		Floor: 1,
		Run:   ruleDur5,
	})
	register(&Rule{
		ID: "DUR-6",
		Doc: "File names are never reused: outside the Store literal of openStore, every store to Store.nextFNameSeq writes the field's own current value plus a positive constant. " +
			"createNextFileLOCKED opens FormatFName(nextFNameSeq) with O_TRUNC, so a counter that can fall back truncates a live data file that is still mapped and referenced by the footer.",
		Props: []string{"C05", "C06", "C07"},
		Floor: 1,
		Run:   ruleDur6,
	})
}

func ruleDur5(c *Ctx) []*Ob {
	o := newObs(c, "DUR-5")
	fNoSync := c.Field("StorePersistOptions", "NoSync")
	for _, f := range c.Funcs {
		if c.isHarness(f) {
			continue
		}
		for _, a := range fieldAccesses(f, func(v *types.Var) bool { return v == fNoSync }) {
			if a.Kind == "load" {
				continue
			}
			ok := false
			if a.Kind == "store" {
				if k, isK := a.Val.(*ssa.Const); isK && k.Value != nil && k.Value.String() == "false" {
					ok = true
				}
			}
			why := "stores the constant false: syncing can only be switched on"
			if !ok {
				why = "NoSync is written with a value that is not the constant false (" + a.Kind + " " + accessPath(a.Val) + "): the caller's request to sync the round can be overridden, and the footer published without a sync"
			}
			o.add(c.fname(f), "write StorePersistOptions.NoSync", c.instrPos(a.Instr), ok, why)
		}
	}
	if len(o.list) == 0 {
		o.trivial("-", "no library write of StorePersistOptions.NoSync", "-", "nothing to decide")
	}
	return o.list
}

func ruleDur6(c *Ctx) []*Ob {
	o := newObs(c, "DUR-6")
	fSeq := c.Field("Store", "nextFNameSeq")
	for _, f := range c.Funcs {
		if c.isHarness(f) {
			continue
		}
		for _, a := range fieldAccesses(f, func(v *types.Var) bool { return v == fSeq }) {
			if a.Kind == "load" {
				continue
			}
			construct := "write Store.nextFNameSeq"
			if a.Kind == "store" && isFreshAlloc(a.Base) {
				o.trivial(c.fname(f), construct+" (literal)", c.instrPos(a.Instr), "initialisation of a new Store")
				continue
			}
			ok := false
			if a.Kind == "store" {
				if b, isB := a.Val.(*ssa.BinOp); isB && b.Op == token.ADD {
					x, y := b.X, b.Y
					if _, isK := x.(*ssa.Const); isK {
						x, y = y, x
					}
					if k, isK := y.(*ssa.Const); isK && k.Value != nil {
						if n, exact := constInt64(k); exact && n > 0 {
							for _, og := range origins(x) {
								if fv, base := loadedField(og); fv == fSeq && canonKey(base) == canonKey(a.Base) {
									ok = true
								}
							}
						}
					}
				}
			}
			why := "the counter only grows (own value + positive constant)"
			if !ok {
				why = "nextFNameSeq is written with something other than its own value plus a positive constant (" + accessPath(a.Val) + "): a sequence number can be handed out twice, and createNextFileLOCKED truncates the live file of that name"
			}
			o.add(c.fname(f), construct, c.instrPos(a.Instr), ok, why)
		}
	}
	return o.list
}

func constInt64(k *ssa.Const) (int64, bool) {
	if k.Value == nil {
		return 0, false
	}
	return k.Int64(), true
}

func init() {
	register(&Rule{
		ID: "DUR-7",
		Doc: "What was written is what is published: after the call persistFooter(_, X, _) no path of the same function changes the serialized state of X - no store to X.SegmentLocs, " +
			"X.ChildFooters or X.PrevFooterOffset, and no call that hands X to a function writing those fields (spliceFooter) - so the footer in memory equals the record on disk. " +
			"(loadSegments only fills the unexported mmap references.) A prefix spliced in after the write is missing from the file and lost at the next open.",
		Props: []string{"C07", "C04", "C05"},
		Floor: 2,
		Run:   ruleDur7,
	})
}

var serializedMemo = map[*ssa.Function]map[int]bool{}

// writesSerializedParam: f stores into a serialized Footer field through its idx-th parameter (directly or through a callee).
func writesSerializedParam(c *Ctx, f *ssa.Function, idx int, ser map[*types.Var]bool, depth int) bool {
	if f == nil || f.Blocks == nil || idx >= len(f.Params) || depth > 4 {
		return false
	}
	if m, ok := serializedMemo[f]; ok {
		if v, ok2 := m[idx]; ok2 {
			return v
		}
	} else {
		serializedMemo[f] = map[int]bool{}
	}
	serializedMemo[f][idx] = false
	p := f.Params[idx]
	fromP := func(v ssa.Value) bool {
		for _, og := range origins(v) {
			if og == ssa.Value(p) {
				return true
			}
		}
		return false
	}
	res := false
	for _, a := range fieldAccesses(f, func(v *types.Var) bool { return ser[v] }) {
		if a.Kind == "load" {
			continue
		}
		if fromP(a.Base) {
			res = true
		}
	}
	if !res {
		eachInstr(f, func(i ssa.Instruction) {
			call, ok := i.(*ssa.Call)
			if !ok || res {
				return
			}
			g := call.Call.StaticCallee()
			if g == nil || g.Pkg != c.Moss {
				return
			}
			for k, a := range call.Call.Args {
				if fromP(a) && writesSerializedParam(c, g, k, ser, depth+1) {
					res = true
				}
			}
		})
	}
	serializedMemo[f][idx] = res
	return res
}

func ruleDur7(c *Ctx) []*Ob {
	o := newObs(c, "DUR-7")
	pf := c.Fn("(*Store).persistFooter")
	ser := map[*types.Var]bool{
		c.Field("Footer", "SegmentLocs"): true, c.Field("Footer", "ChildFooters"): true, c.Field("Footer", "PrevFooterOffset"): true,
	}
	n := 0
	for _, f := range c.Funcs {
		if c.isHarness(f) {
			continue
		}
		fn := c.fname(f)
		for _, k := range callsToFn(f, pf) {
			if len(k.Call.Args) < 3 {
				continue
			}
			n++
			X := k.Call.Args[2]
			isX := func(v ssa.Value) bool {
				if sameValue(v, X) {
					return true
				}
				for _, a := range origins(v) {
					for _, b := range origins(X) {
						if a == b {
							return true
						}
					}
				}
				return false
			}
			bad := ""
			walk(after(k), walkOpts{noInline: true, visit: func(i ssa.Instruction, t *tracker) bool {
				if bad != "" {
					return true
				}
				if i == ssa.Instruction(k) {
					return true
				}
				if st, ok := i.(*ssa.Store); ok {
					if fv, base := asFieldAddr(st.Addr); fv != nil && ser[fv] && base != nil && isX(base) {
						bad = "store to " + fv.Name() + " at " + c.instrPos(i)
					}
				}
				if call, ok := i.(*ssa.Call); ok {
					if _, isRel := isReleaseCall(call); isRel {
						return false // giving the footer up (error path) is not a change of what is published
					}
					if g := call.Call.StaticCallee(); g != nil && g.Pkg == c.Moss {
						for idx, a := range call.Call.Args {
							if isX(a) && writesSerializedParam(c, g, idx, ser, 0) {
								bad = "call " + g.Name() + " at " + c.instrPos(i)
							}
						}
					}
				}
				return bad != ""
			}})
			why := "after the footer was written its serialized fields are not changed in this function"
			if bad != "" {
				why = "the footer handed to persistFooter is changed afterwards (" + bad + "): the record on disk lacks what the footer in memory has - after the next open the difference (a retained prefix of segments, a child, the history link) is gone"
			}
			o.add(fn, "footer unchanged after persistFooter", c.instrPos(k), bad == "", why)
		}
	}
	if n == 0 {
		o.add("-", "calls of persistFooter", "-", false, "anchor lost: nothing calls persistFooter")
	}
	return o.list
}

// closureOnlyOnErrorPaths: g is a clean-up closure of parent taking an error; it returns that error on every path,
// every call of it in parent passes an error value that is non-nil there, and no success return follows the call.
func closureOnlyOnErrorPaths(c *Ctx, parent, g *ssa.Function) string {
	var errParam *ssa.Parameter
	for _, p := range g.Params {
		if isErrorType(p.Type()) {
			errParam = p
		}
	}
	if errParam == nil {
		return "the clean-up closure takes no error: it cannot be tied to an error path of compact"
	}
	res := g.Signature.Results()
	if res.Len() == 0 || !isErrorType(res.At(res.Len()-1).Type()) {
		return "the clean-up closure does not return the error it was given"
	}
	bad := ""
	eachInstr(g, func(i ssa.Instruction) {
		if r, ok := i.(*ssa.Return); ok {
			for _, og := range origins(r.Results[len(r.Results)-1]) {
				if og != ssa.Value(errParam) {
					bad = "the clean-up closure can return something other than the error it was given (" + c.instrPos(i) + ")"
				}
			}
		}
	})
	if bad != "" {
		return bad
	}
	ncalls := 0
	eachInstr(parent, func(i ssa.Instruction) {
		call, ok := i.(*ssa.Call)
		if !ok || bad != "" {
			return
		}
		isG := false
		for _, og := range origins(call.Call.Value) {
			if mc, isMC := og.(*ssa.MakeClosure); isMC && mc.Fn == ssa.Value(g) {
				isG = true
			}
		}
		if !isG {
			return
		}
		ncalls++
		idx := -1
		for k, p := range g.Params {
			if p == errParam {
				idx = k
			}
		}
		if idx < 0 || idx >= len(call.Call.Args) {
			bad = "call of the clean-up closure without its error argument at " + c.instrPos(i)
			return
		}
		arg := call.Call.Args[idx]
		// behind the non-nil edge of a test of arg
		guarded := false
		for _, b := range parent.Blocks {
			iff, isIf := b.Instrs[len(b.Instrs)-1].(*ssa.If)
			if !isIf {
				continue
			}
			bo, isB := iff.Cond.(*ssa.BinOp)
			if !isB || (bo.Op != token.NEQ && bo.Op != token.EQL) {
				continue
			}
			x, y := bo.X, bo.Y
			if isNilConst(x) {
				x, y = y, x
			}
			if !isNilConst(y) || !sameValue(x, arg) {
				continue
			}
			succ := b.Succs[0]
			if bo.Op == token.EQL {
				succ = b.Succs[1]
			}
			if len(succ.Preds) == 1 && succ.Dominates(call.Block()) {
				guarded = true
			}
		}
		if !guarded {
			bad = "the clean-up closure is called at " + c.instrPos(i) + " with an error that is not known to be non-nil there: the new compaction file could be scheduled for removal on a successful round"
			return
		}
		if r, reach := reachableFrom(call, func(j ssa.Instruction) bool {
			rt, isR := j.(*ssa.Return)
			return isR && returnsNil(rt.Results[len(rt.Results)-1])
		}, nil, nil); reach {
			bad = "a success return (" + c.instrPos(r) + ") is reachable after the clean-up closure scheduled the removal of the new compaction file"
		}
	})
	if bad == "" && ncalls == 0 {
		return "" // never called: nothing is removed
	}
	return bad
}

func init() {
	register(&Rule{
		ID: "DUR-8",
		Doc: "Nothing fails after the commit point: once a round has published its footer (a store of a non-nil value to Store.footer on a shared Store; for compactMaybe, the nil-error edge of " +
			"its compact call) every return reachable from there reports success (a nil error). The persister treats an error as 'the round did not happen' and hands the same stack down " +
			"again; after a commit that replays the round - Set and Del are idempotent, every Merge operand is applied twice.",
		Props: []string{"C08", "C06", "C13"},
		Floor: 3,
		Run:   ruleDur8,
	})
	register(&Rule{
		ID: "SORT-3",
		Doc: "ensureSorted waits for what it asked for: the loop that calls RequestSort(true) (wait) runs over the same index space as the loop that calls RequestSort(false) (ask) - same start " +
			"value, same comparison operator, same bound. A waiting loop that stops one short lets a reader binary-search the bottom segment while the merger is still sorting it in place.",
		Props: []string{"C02", "C01", "C17"},
		Floor: 1,
		Run:   ruleSort3,
	})
	register(&Rule{
		ID: "REF-14",
		Doc: "API arguments are borrowed: an exported method, or a private function reachable only from one, does not release (Close/DecRef/decRef) an object that is (a type assertion of) one of its " +
			"non-receiver parameters unless it acquired it in the same function (segmentLocs()/AddRef + deferred DecRef). SnapshotPrevious(ss) must leave ss as it found it: an unpaired " +
			"DecRef takes one reference from the caller's snapshot per call, and the snapshot dies under its holder at the next persistence round.",
		Props: []string{"C02", "C15", "C12"},
		Floor: 1,
		Run:   ruleRef14,
	})
}

func ruleDur8(c *Ctx) []*Ob {
	o := newObs(c, "DUR-8")
	fFooter := c.Field("Store", "footer")
	check := func(f *ssa.Function, from point, what string, pos string, skipNonNil *ssa.Call) {
		bad := ""
		// with a defer in the function the results are spilled into cells: the verdict is taken where the error cell is written
		errCells := map[ssa.Value]bool{}
		eachInstr(f, func(i ssa.Instruction) {
			if r, ok := i.(*ssa.Return); ok && len(r.Results) > 0 {
				if ld, isLd := r.Results[len(r.Results)-1].(*ssa.UnOp); isLd && ld.Op == token.MUL {
					if a, isA := ld.X.(*ssa.Alloc); isA {
						errCells[a] = true
					}
				}
			}
		})
		opts := walkOpts{noInline: true, visit: func(i ssa.Instruction, t *tracker) bool {
			if bad != "" {
				return true
			}
			if st, ok := i.(*ssa.Store); ok && errCells[st.Addr] && !isNilConst(st.Val) {
				bad = c.instrPos(i)
				return true
			}
			if r, ok := i.(*ssa.Return); ok {
				res := f.Signature.Results()
				if res.Len() > 0 && isErrorType(res.At(res.Len()-1).Type()) && len(r.Results) == res.Len() {
					last := r.Results[res.Len()-1]
					spilled := false
					if ld, isLd := last.(*ssa.UnOp); isLd && ld.Op == token.MUL && errCells[ld.X] {
						spilled = true
					}
					if !spilled && !isNilConst(last) {
						bad = c.instrPos(i)
					}
				}
				return true
			}
			return false
		}}
		if skipNonNil != nil {
			opts.origin, opts.originIdx = skipNonNil, errResultIndex(skipNonNil.Call.Signature())
			if skipNonNil.Call.Signature().Results().Len() == 1 {
				opts.seed = []ssa.Value{skipNonNil}
			}
			opts.edge = func(from, to *ssa.BasicBlock, label string, cond ssa.Value, onTrue bool, _ *tracker) bool {
				return bad != "" || label == "nonnil"
			}
		}
		walk(from, opts)
		why := "every return after the commit point reports success"
		if bad != "" {
			why = "after the commit point a return at " + bad + " can report an error: the caller (the persister) believes the round failed and persists the same stack again on top of the committed one - merge operands are applied twice"
		}
		o.add(c.fname(f), what, pos, bad == "", why)
	}
	for _, f := range c.Funcs {
		if c.isHarness(f) {
			continue
		}
		res := f.Signature.Results()
		if res.Len() == 0 || !isErrorType(res.At(res.Len()-1).Type()) {
			continue
		}
		for _, a := range fieldAccesses(f, func(v *types.Var) bool { return v == fFooter }) {
			if a.Kind != "store" || isNilConst(a.Val) || isFreshAlloc(a.Base) {
				continue
			}
			check(f, after(a.Instr), "after publishing Store.footer", c.instrPos(a.Instr), nil)
		}
	}
	cm := c.Fn("(*Store).compactMaybe")
	for _, k := range callsToFn(cm, c.Fn("(*Store).compact")) {
		check(cm, after(k), "after a successful compact", c.instrPos(k), k)
	}
	return o.list
}

func ruleSort3(c *Ctx) []*Ob {
	o := newObs(c, "SORT-3")
	f := c.Fn("(*segmentStack).ensureSorted")
	fn := c.fname(f)
	type loopInfo struct {
		op          token.Token
		init, bound ssa.Value
		pos         string
		ok          bool
	}
	info := map[bool]*loopInfo{}
	eachInstr(f, func(i ssa.Instruction) {
		call, ok := i.(*ssa.Call)
		if !ok || !call.Call.IsInvoke() || call.Call.Method.Name() != "RequestSort" || len(call.Call.Args) != 1 {
			return
		}
		wait, isK := constBool(call.Call.Args[0])
		if !isK {
			return
		}
		scc := sccOf(f, call.Block())
		li := &loopInfo{pos: c.instrPos(i)}
		info[wait] = li
		if scc == nil {
			return
		}
		// the loop's exit test: an If in the loop with one successor outside, comparing a phi with a bound
		for b := range scc {
			iff, isIf := b.Instrs[len(b.Instrs)-1].(*ssa.If)
			if !isIf || (scc[b.Succs[0]] && scc[b.Succs[1]]) {
				continue
			}
			bo, isB := iff.Cond.(*ssa.BinOp)
			if !isB {
				continue
			}
			ph, isPhi := bo.X.(*ssa.Phi)
			if !isPhi || len(ph.Edges) != 2 {
				continue
			}
			for k, e := range ph.Edges {
				if !scc[ph.Block().Preds[k]] {
					li.init = e
				}
			}
			li.op, li.bound, li.ok = bo.Op, bo.Y, true
		}
	})
	ask, wait := info[false], info[true]
	if ask == nil || wait == nil || !ask.ok || !wait.ok {
		o.add(fn, "ask loop / wait loop", c.pos(f.Pos()), false, "undecided: the two RequestSort loops (ask with false, wait with true) were not both recognised")
		return o.list
	}
	same := ask.op == wait.op && sameValue(ask.init, wait.init) && sameValue(ask.bound, wait.bound)
	why := "the waiting loop covers exactly the segments the asking loop covered"
	if !same {
		why = "the waiting loop (" + wait.pos + ") does not run over the same indices as the asking loop (" + ask.pos + "): " + wait.op.String() + " vs " + ask.op.String() +
			" - a segment whose sort was requested is not waited for, and the reader searches it while it is being sorted in place"
	}
	o.add(fn, "wait loop covers the ask loop", wait.pos, same, why)
	return o.list
}

func ruleRef14(c *Ctx) []*Ob {
	o := newObs(c, "REF-14")
	n := 0
	for _, f := range c.Funcs {
		if c.isHarness(f) || f.Parent() != nil {
			continue
		}
		exported := isExportedRoot(f)
		if !exported {
			// a private helper reachable only from exported API roots
			sites := c.Callers(f)
			if len(sites) == 0 {
				continue
			}
			all := true
			for _, s := range sites {
				if _, isGo := s.Instr.(*ssa.Go); isGo || !isExportedRoot(s.Caller) {
					all = false
				}
			}
			if !all {
				continue
			}
		}
		fn := c.fname(f)
		evs := refEvents(c, f)
		acquired := map[string]bool{}
		for _, e := range evs {
			if e.kind == "acq" {
				acquired[canonKey(e.tok)] = true
			}
		}
		for _, e := range evs {
			if e.kind != "rel" && e.kind != "defer-rel" {
				continue
			}
			if acquired[canonKey(e.tok)] {
				continue
			}
			var param *ssa.Parameter
			for _, w := range origins(e.tok) {
				if p, ok := w.(*ssa.Parameter); ok && p.Parent() == f {
					isRecv := f.Signature.Recv() != nil && len(f.Params) > 0 && f.Params[0] == p
					if !isRecv {
						param = p
					}
				}
				if ta, ok := w.(*ssa.TypeAssert); ok {
					if p, isP := ta.X.(*ssa.Parameter); isP && p.Parent() == f {
						param = p
					}
				}
			}
			if param == nil {
				// extract of a comma-ok type assertion
				for _, og := range origins(e.tok) {
					if ex, isE := og.(*ssa.Extract); isE {
						if ta, isTA := ex.Tuple.(*ssa.TypeAssert); isTA {
							if p, isP := ta.X.(*ssa.Parameter); isP && p.Parent() == f {
								param = p
							}
						}
					}
				}
			}
			if param == nil {
				continue
			}
			if !exported {
				// a private helper: its argument is the application's only if, at a call site, it is (derived from) a
				// non-receiver parameter of the exported caller; what the caller created or acquired itself is the
				// caller's to release, also through a helper (`abandon(iter)`)
				pi := -1
				for k, p := range f.Params {
					if p == param {
						pi = k
					}
				}
				fromApp := false
				for _, cs := range c.Callers(f) {
					cc := cs.Instr.Common()
					if cc.StaticCallee() != f || pi < 0 || pi >= len(cc.Args) {
						continue
					}
					g := cs.Instr.Parent()
					for _, og := range origins(cc.Args[pi]) {
						if p2, isP := og.(*ssa.Parameter); isP && p2.Parent() == g {
							isRecv := g.Signature.Recv() != nil && len(g.Params) > 0 && g.Params[0] == p2
							if !isRecv {
								fromApp = true
							}
						}
						if ta, isTA := og.(*ssa.TypeAssert); isTA {
							if p2, isP := ta.X.(*ssa.Parameter); isP && p2.Parent() == g {
								fromApp = true
							}
						}
					}
				}
				if !fromApp {
					continue
				}
			}
			n++
			o.add(fn, "release of argument "+param.Name(), c.instrPos(e.instr), false,
				"the function releases the object its caller passed as "+param.Name()+" without having acquired it here: every call takes one reference away from the caller's handle, which then dies under its holder (Get returns nil, iteration is empty) as soon as the store replaces its footer")
		}
	}
	if n == 0 {
		o.add("-", "no API function releases an argument it did not acquire", "-", true, "every release of (an assertion of) a parameter in an API function is paired with an acquisition in that function")
	}
	return o.list
}

func init() {
	register(&Rule{
		ID: "DUR-9",
		Doc: "A child sizes the file after its parent has landed: in Store.writeSegments every recursive call (a child collection's segments) is preceded on every path by Stop of both of the " +
			"function's section writers. Each level takes its start offsets from the file's current size; while the parent's asynchronous writes are still in flight a child computes the " +
			"same offsets and overwrites the parent's sections.",
		Props: []string{"C11", "C07"},
		Floor: 1,
		Run:   ruleDur9,
	})
}

func ruleDur9(c *Ctx) []*Ob {
	o := newObs(c, "DUR-9")
	f := c.Fn("(*Store).writeSegments")
	fn := c.fname(f)
	stop := c.Fn("(*bufferedSectionWriter).Stop")
	stops := callsToFn(f, stop)
	// distinct writers: by the receiver's origin
	writers := map[string][]*ssa.Call{}
	for _, k := range stops {
		key := ""
		for _, og := range origins(k.Call.Args[0]) {
			key += canonKey(og) + ";"
		}
		writers[key] = append(writers[key], k)
	}
	n := 0
	for _, k := range callsToFn(f, f) {
		n++
		missing := ""
		for wk, ks := range writers {
			isStop := func(i ssa.Instruction) bool {
				for _, s := range ks {
					if i == ssa.Instruction(s) {
						return true
					}
				}
				return false
			}
			if !mustPrecede(f, k, isStop, nil) {
				missing = wk
			}
		}
		ok := missing == "" && len(writers) >= 2
		why := "both section writers are stopped (their writes have landed) before a child collection is written"
		if !ok {
			why = "a child collection's writeSegments can start while a section writer of this level has not been stopped: the child sizes the file before the parent's asynchronous writes have landed and overwrites the parent's sections"
		}
		o.add(fn, "recursive call after Stop of both writers", c.instrPos(k), ok, why)
	}
	if n == 0 {
		o.add(fn, "recursive call", c.pos(f.Pos()), false, "anchor lost: writeSegments no longer recurses (INC-3 reports it)")
	}
	return o.list
}

// ---------------------------------------------------------------- DEL-2

func init() {
	register(&Rule{
		ID: "DEL-2",
		Doc: "A superseded file really disappears: the callback that Store.removeFileOnClose registers with FileRef.OnAfterClose reaches os.Remove on every path - directly or through the goroutine / closures it starts " +
			"(every path of each of them, to its return, passes the removal or the start of a closure that does). A removal that is conditional on bookkeeping (e.g. on the file being listed in fileRefMap, " +
			"which only knows files this Store instance created) leaves the file a reopened store compacted away on disk.",
		Props: []string{"C07", "C15"},
		Floor: 1,
		Run:   ruleDel2,
	})
}

func ruleDel2(c *Ctx) []*Ob {
	o := newObs(c, "DEL-2")
	rf := c.Fn("(*Store).removeFileOnClose")
	onAfter := c.Fn("(*FileRef).OnAfterClose")
	isRemove := func(i ssa.Instruction) bool {
		ci, ok := i.(ssa.CallInstruction)
		return ok && isStaticCall(ci, "os", "Remove")
	}
	var always func(f *ssa.Function, depth int) (bool, string)
	always = func(f *ssa.Function, depth int) (bool, string) {
		if f == nil || f.Blocks == nil || depth > 3 {
			return false, "closure body not found"
		}
		via := func(i ssa.Instruction) bool {
			if isRemove(i) {
				return true
			}
			var callee ssa.Value
			switch x := i.(type) {
			case *ssa.Go:
				callee = x.Call.Value
			case *ssa.Call:
				callee = x.Call.Value
			case *ssa.Defer:
				callee = x.Call.Value
			default:
				return false
			}
			var g *ssa.Function
			switch v := callee.(type) {
			case *ssa.MakeClosure:
				g, _ = v.Fn.(*ssa.Function)
			case *ssa.Function:
				g = v
			}
			if g == nil || g.Pkg != c.Moss {
				return false
			}
			ok, _ := always(g, depth+1)
			return ok
		}
		bad := ""
		eachInstr(f, func(i ssa.Instruction) {
			if _, isR := i.(*ssa.Return); !isR || bad != "" {
				return
			}
			if !mustPrecede(f, i, via, nil) {
				bad = c.instrPos(i)
			}
		})
		if bad != "" {
			return false, "a path of " + c.fname(f) + " reaches its return at " + bad + " without calling os.Remove"
		}
		return true, ""
	}
	n := 0
	for _, k := range callsToFn(rf, onAfter) {
		if len(k.Call.Args) < 2 {
			continue
		}
		n++
		var g *ssa.Function
		for _, og := range origins(k.Call.Args[1]) {
			if mc, ok := og.(*ssa.MakeClosure); ok {
				g, _ = mc.Fn.(*ssa.Function)
			}
		}
		ok, why := always(g, 0)
		if ok {
			why = "every path of the after-close callback (and of the goroutine it starts) removes the file"
		} else {
			why += ": the superseded data file can stay in the directory after its last reference is gone"
		}
		o.add(c.fname(rf), "after-close callback removes the file", c.instrPos(k), ok, why)
	}
	if n == 0 {
		o.add(c.fname(rf), "after-close callback removes the file", c.pos(rf.Pos()), false, "anchor lost: removeFileOnClose registers no OnAfterClose callback")
	}
	return o.list
}
