package main

// R-COV: walker coverage agreement (C20, C15, C07, C16) and REF-3.

import (
	"fmt"
	"go/token"
	"go/types"
	"sort"
	"strings"

	"golang.org/x/tools/go/ssa"
)

func init() {
	register(&Rule{
		ID: "R-COV",
		Doc: "Coverage agreement between sibling walkers of one type: (1) segmentStack.Stats (the dirty gauges) reads every field the emptiness predicate segmentStack.isEmpty reads " +
			"(a, childSegStacks) – a gauge that does not look where the predicate looks can be zero while data is dirty; (2) the zero branch of Footer.DecRef (release) reads every tree field the acquire walker " +
			"Footer.doLoadSegments reads (SegmentLocs, ChildFooters); (3) the zero branch of segmentStack.decRef reads the fields into which snapshot/appendChildLLSnapshot/merge store acquired references " +
			"(lowerLevelSnapshot, childSegStacks).",
		Props: []string{"C20", "C15", "C07"},
		Floor: 3,
		Run:   ruleCov,
	})
	register(&Rule{
		ID: "COV-2",
		Doc: "Wake-up and back-pressure predicates are children-aware: every branch condition in a collection method that tests len(<section>.a) of a section stack (stackDirtyTop/Mid/Base/Clean) – " +
			"the merger's sleep test, the persister's ping test, ExecuteBatch's back-pressure test – must also consult the stack's children (isEmpty / childSegStacks): a batch that only touches child " +
			"collections adds nothing to top.a.",
		Props: []string{"C20", "C16", "C11", "C04"},
		Floor: 1,
		Run:   ruleCov2,
	})
	register(&Rule{
		ID: "COV-3",
		Doc: "Skipping a persistence round must be deletion-aware: in Store.persist a return taken because the incoming stack isEmpty() (no segments anywhere in the tree) skips buildNewFooter, " +
			"the only place where a child collection absent from the incoming stack is dropped from the footer. isEmpty cannot see an absence, so the skip decision must also consult the " +
			"store footer's ChildFooters; otherwise a batch that only deletes a child collection is never persisted and the child is back after reopen.",
		Props: []string{"C11", "C04", "C20"},
		Floor: 1,
		Run:   ruleCov3,
	})
	register(&Rule{
		ID: "COV-6",
		Doc: "Going to sleep is decided on presence, not on content: a branch condition that controls (a) the merger arming its wake-up channel (a store of a freshly made channel into " +
			"collection.waitDirtyIncomingCh) or (b) a ping of the merger from a background task (a send on pingMergerCh outside the API function NotifyMerger) must not be computed from a pure " +
			"content measure - len(<stack>.a), or a segmentStack method that (transitively) reads nothing of the stack but a and childSegStacks - of stackDirtyTop / stackDirtyMid. A non-nil dirty " +
			"section may hold nothing but the creation or deletion of a child collection, which no content measure can see; left in the top or middle section it never reaches the lower level " +
			"(second half of D17). Nil tests, and methods that consult any other state of the stack, are accepted.",
		Props: []string{"C11", "C04", "C20"},
		Floor: 0,
		Run:   ruleCov6,
	})
	register(&Rule{
		ID: "REF-3",
		Doc: "Zero closes the next level: the refs <= 0 branch of each release function releases every owning field of its type – segmentStack.decRef: lowerLevelSnapshot; " +
			"SnapshotWrapper.decRef: ss, closer; Footer.DecRef: SegmentLocs; mmapRef.DecRef: mm (Unmap), fref; FileRef.DecRef: file; Store.Close: footer.",
		Props: []string{"C15", "C02"},
		Floor: 6,
		Run:   ruleRef3,
	})
}

// zeroRegion: the zero branch of release function f plus, for helper extraction,
// the bodies of methods called from it on the same receiver.
type regionPart struct {
	f  *ssa.Function
	in func(*ssa.BasicBlock) bool
}

func zeroRegion(c *Ctx, f *ssa.Function) []regionPart {
	in := zeroBranch(f)
	if in == nil {
		return nil
	}
	parts := []regionPart{{f, in}}
	if len(f.Params) == 0 {
		return parts
	}
	recv := f.Params[0]
	eachInstr(f, func(i ssa.Instruction) {
		call, ok := i.(*ssa.Call)
		if !ok || !in(i.Block()) {
			return
		}
		h := call.Call.StaticCallee()
		if h == nil || h.Pkg != c.Moss || h.Blocks == nil || h == f || len(call.Call.Args) == 0 {
			return
		}
		if call.Call.Args[0] == ssa.Value(recv) && h.Signature.Recv() != nil && !isExportedRoot(h) {
			parts = append(parts, regionPart{h, func(*ssa.BasicBlock) bool { return true }})
		}
	})
	return parts
}

// fieldsRead: names of the fields of struct type tn read in the given blocks of f (nil = all blocks).
func fieldsRead(f *ssa.Function, tn string, in func(*ssa.BasicBlock) bool) map[string]bool {
	out := map[string]bool{}
	for _, a := range fieldAccesses(f, func(v *types.Var) bool { return true }) {
		if a.Write && a.Kind == "store" {
			continue
		}
		if in != nil && !in(a.Instr.Block()) {
			continue
		}
		bt := a.Base.Type()
		if typeName(bt) != tn {
			continue
		}
		out[a.Field.Name()] = true
	}
	return out
}

// zeroBranch returns the predicate "block is dominated by the true edge of
// a `refs <= 0`-style test" for a release function.
func zeroBranch(f *ssa.Function) func(*ssa.BasicBlock) bool {
	var heads []*ssa.BasicBlock
	for _, b := range f.Blocks {
		iff, ok := b.Instrs[len(b.Instrs)-1].(*ssa.If)
		if !ok {
			continue
		}
		cmp, ok := iff.Cond.(*ssa.BinOp)
		if !ok {
			continue
		}
		fv, _ := loadedField(cmp.X)
		if fv == nil || (fv.Name() != "refs" && fv.Name() != "refCount") {
			continue
		}
		n, isInt := constInt(cmp.Y)
		if !isInt {
			continue
		}
		switch {
		case (cmp.Op == token.LEQ || cmp.Op == token.EQL) && n == 0, cmp.Op == token.LSS && n == 1:
			heads = append(heads, b.Succs[0])
		case cmp.Op == token.GTR && n == 0: // refs > 0 -> else branch is the zero branch
			heads = append(heads, b.Succs[1])
		}
	}
	if len(heads) == 0 {
		return nil
	}
	return func(b *ssa.BasicBlock) bool {
		for _, h := range heads {
			if h.Dominates(b) && len(h.Preds) == 1 {
				return true
			}
		}
		return false
	}
}

func keys(m map[string]bool) string {
	var l []string
	for k := range m {
		l = append(l, k)
	}
	sort.Strings(l)
	return "{" + strings.Join(l, ", ") + "}"
}

func ruleCov(c *Ctx) []*Ob {
	o := newObs(c, "R-COV")
	type pair struct {
		a, b    string
		tn      string
		S       []string
		zeroOfB bool
		what    string
		aFields []string // when set: use this fixed set instead of reading a
	}
	pairs := []pair{
		{"(*segmentStack).isEmpty", "(*segmentStack).Stats", "segmentStack", []string{"a", "childSegStacks"}, false,
			"the dirty gauges ignore child stacks: after a child-only batch every gauge reads 0 while the data is not in the lower level", nil},
		{"(*Footer).doLoadSegments", "(*Footer).DecRef", "Footer", []string{"SegmentLocs", "ChildFooters"}, true,
			"releasing a footer does not release its child footers: their mappings and the file descriptor stay open after everything was closed", nil},
		{"", "(*segmentStack).decRef", "segmentStack", []string{"lowerLevelSnapshot", "childSegStacks"}, true,
			"releasing a stack does not release the lower-level snapshots its child stacks acquired (appendChildLLSnapshot)", []string{"lowerLevelSnapshot", "childSegStacks"}},
	}
	for _, p := range pairs {
		fb := c.Fn(p.b)
		covB := map[string]bool{}
		if p.b == "(*segmentStack).Stats" {
			// the gauge is whatever statsSegmentsLOCKED calls on the section stacks (and what that calls on segmentStack)
			seenF := map[*ssa.Function]bool{}
			var add func(f *ssa.Function)
			add = func(f *ssa.Function) {
				if seenF[f] {
					return
				}
				seenF[f] = true
				for k := range fieldsRead(f, p.tn, nil) {
					covB[k] = true
				}
				eachInstr(f, func(i ssa.Instruction) {
					if call, ok := i.(*ssa.Call); ok {
						if h := call.Call.StaticCallee(); h != nil && h.Pkg == c.Moss && h.Signature.Recv() != nil && typeName(h.Signature.Recv().Type()) == p.tn {
							add(h)
						}
					}
				})
			}
			ssl := c.Fn("(*collection).statsSegmentsLOCKED")
			eachInstr(ssl, func(i ssa.Instruction) {
				if call, ok := i.(*ssa.Call); ok {
					if h := call.Call.StaticCallee(); h != nil && h.Pkg == c.Moss && h.Signature.Recv() != nil && typeName(h.Signature.Recv().Type()) == p.tn {
						add(h)
					}
				}
			})
			if len(seenF) == 0 {
				o.add(c.fname(ssl), "gauge function", c.pos(ssl.Pos()), false, "anchor lost: statsSegmentsLOCKED no longer asks the section stacks for statistics")
				continue
			}
		} else if p.zeroOfB {
			parts := zeroRegion(c, fb)
			if parts == nil {
				o.add(p.b, "zero branch", c.pos(fb.Pos()), false, "anchor lost: no `refs <= 0` branch found in the release function")
				continue
			}
			for _, part := range parts {
				for k := range fieldsRead(part.f, p.tn, part.in) {
					covB[k] = true
				}
			}
		} else {
			covB = fieldsRead(fb, p.tn, nil)
		}
		covA := map[string]bool{}
		if p.aFields != nil {
			for _, x := range p.aFields {
				covA[x] = true
			}
		} else {
			covA = fieldsRead(c.Fn(p.a), p.tn, nil)
		}
		for _, fld := range p.S {
			if !covA[fld] {
				continue // the acquire side does not look there (any more)
			}
			aname := p.a
			if aname == "" {
				aname = "snapshot/appendChildLLSnapshot/merge"
			}
			construct := fmt.Sprintf("coverage of %s includes %s", p.tn, fld)
			bname := p.b
			if p.b == "(*segmentStack).Stats" {
				bname = "the gauge functions statsSegmentsLOCKED calls"
			}
			if covB[fld] {
				o.add(p.b, construct, c.pos(fb.Pos()), true, fmt.Sprintf("%s read %s like %s does", bname, fld, aname))
			} else {
				o.add(p.b, construct, c.pos(fb.Pos()), false,
					fmt.Sprintf("%s reads %s but %s only read %s: %s", aname, fld, bname, keys(covB), p.what))
			}
		}
	}
	return o.list
}

var sectionFields = map[string]bool{"stackDirtyTop": true, "stackDirtyMid": true, "stackDirtyBase": true, "stackClean": true}

func ruleCov2(c *Ctx) []*Ob {
	o := newObs(c, "COV-2")
	// does segmentStack method h (transitively, within segmentStack methods) read childSegStacks?
	aware := map[*ssa.Function]int{}
	var childrenAware func(h *ssa.Function) bool
	childrenAware = func(h *ssa.Function) bool {
		switch aware[h] {
		case 1:
			return true
		case 2, 3:
			return false
		}
		aware[h] = 3
		ok := fieldsRead(h, "segmentStack", nil)["childSegStacks"]
		if ok {
			// ... at every level: inside its loop over the children it hands each child to itself or to another
			// children-aware method; reading len(child.a) there covers one level of nesting only
			deep := false
			for _, scc := range rangeLoopsOver(h, "childSegStacks") {
				eachInstr(h, func(i ssa.Instruction) {
					call, isCall := i.(*ssa.Call)
					if !isCall || !scc[i.Block()] || deep {
						return
					}
					g := call.Call.StaticCallee()
					if g == nil || g.Pkg != c.Moss || g.Signature.Recv() == nil || typeName(g.Signature.Recv().Type()) != "segmentStack" {
						return
					}
					if g == h || childrenAware(g) {
						deep = true
					}
				})
			}
			if len(rangeLoopsOver(h, "childSegStacks")) > 0 && !deep {
				ok = false
				aware[h] = 2
				return false
			}
		}
		if !ok {
			eachInstr(h, func(i ssa.Instruction) {
				if call, isCall := i.(*ssa.Call); isCall && !ok {
					if g := call.Call.StaticCallee(); g != nil && g.Pkg == c.Moss && g.Signature.Recv() != nil && typeName(g.Signature.Recv().Type()) == "segmentStack" {
						ok = childrenAware(g)
					}
				}
			})
		}
		if ok {
			aware[h] = 1
		} else {
			aware[h] = 2
		}
		return ok
	}
	sectionOfStack := func(v ssa.Value) string {
		for _, og := range origins(v) {
			if fs, _ := loadedField(og); fs != nil && sectionFields[fs.Name()] {
				return fs.Name()
			}
		}
		return ""
	}
	// the store's persistence decisions: a branch of persist / compact / compactMaybe whose condition is computed
	// from the incoming stack through a segmentStack method must use a children-aware one
	for _, fnn := range []string{"(*Store).persist", "(*Store).compact", "(*Store).compactMaybe"} {
		f := c.Fn(fnn)
		for _, b := range f.Blocks {
			iff, ok := b.Instrs[len(b.Instrs)-1].(*ssa.If)
			if !ok {
				continue
			}
			var calls []*ssa.Call
			collect := func(v ssa.Value) {
				backSlice(v, func(w ssa.Value) bool {
					switch x := w.(type) {
					case *ssa.Call:
						if h := x.Call.StaticCallee(); h != nil && h.Pkg == c.Moss && h.Signature.Recv() != nil && typeName(h.Signature.Recv().Type()) == "segmentStack" {
							calls = append(calls, x)
						}
					case *ssa.UnOp:
						// a field of the struct a segmentStack method returned (ss.Stats().CurOps)
						if x.Op == token.MUL {
							if fa, isFA := x.X.(*ssa.FieldAddr); isFA {
								if call, isCall := fa.X.(*ssa.Call); isCall {
									if h := call.Call.StaticCallee(); h != nil && h.Pkg == c.Moss && h.Signature.Recv() != nil && typeName(h.Signature.Recv().Type()) == "segmentStack" {
										calls = append(calls, call)
									}
								}
							}
						}
					}
					return false
				})
			}
			cond := iff.Cond
			if cmp, isB := cond.(*ssa.BinOp); isB {
				if isNilConst(cmp.X) || isNilConst(cmp.Y) {
					continue // a nil test of the result, not a measure
				}
				collect(cmp.X)
				collect(cmp.Y)
			} else {
				collect(cond)
			}
			for _, call := range calls {
				h := call.Call.StaticCallee()
				okA := childrenAware(h)
				why := h.Name() + "() looks at the stack's children too"
				if !okA {
					why = "the decision is taken from " + h.Name() + "(), which never reads childSegStacks: a persistence round whose data lives only in child collections is misjudged (e.g. skipped as clean, its data dropped)"
				}
				o.add(fnn, "branch on incoming stack's "+h.Name()+"()", c.instrPos(iff), okA, why)
			}
		}
	}
	for _, f := range c.Funcs {
		if !collectionMethod(f) {
			continue
		}
		fn := c.fname(f)
		for _, b := range f.Blocks {
			iff, ok := b.Instrs[len(b.Instrs)-1].(*ssa.If)
			if !ok {
				continue
			}
			// the measures of a section stack this condition is built from
			var measures []ssa.Value
			cond := iff.Cond
			for {
				if u, isU := cond.(*ssa.UnOp); isU && u.Op == token.NOT {
					cond = u.X
					continue
				}
				break
			}
			if cmp, isB := cond.(*ssa.BinOp); isB {
				measures = append(measures, cmp.X, cmp.Y)
			} else {
				measures = append(measures, cond)
			}
			for _, mv := range measures {
				call, isCall := mv.(*ssa.Call)
				if !isCall {
					continue
				}
				if bi, isBi := call.Call.Value.(*ssa.Builtin); isBi && bi.Name() == "len" {
					fa, base := loadedField(call.Call.Args[0])
					if fa == nil || fa.Name() != "a" || typeName(base.Type()) != "segmentStack" {
						continue
					}
					sect := sectionOfStack(base)
					if sect == "" {
						continue
					}
					o.add(fn, fmt.Sprintf("branch on len(%s.a)", sect), c.instrPos(iff), false,
						"the predicate looks only at "+sect+".a: a batch that only touches child collections leaves a unchanged, so it is invisible to this test")
					continue
				}
				h := call.Call.StaticCallee()
				if h == nil || h.Pkg != c.Moss || h.Signature.Recv() == nil || typeName(h.Signature.Recv().Type()) != "segmentStack" || len(call.Call.Args) == 0 {
					continue
				}
				sect := sectionOfStack(call.Call.Args[0])
				if sect == "" {
					continue
				}
				okA := childrenAware(h)
				why := h.Name() + "() looks at the stack's children too"
				if !okA {
					why = h.Name() + "() never reads childSegStacks: a batch that only touches child collections is invisible to this test"
				}
				o.add(fn, fmt.Sprintf("branch on %s.%s()", sect, h.Name()), c.instrPos(iff), okA, why)
			}
		}
	}
	return o.list
}

func ruleCov3(c *Ctx) []*Ob {
	o := newObs(c, "COV-3")
	persist := c.Fn("(*Store).persist")
	isEmpty := c.Fn("(*segmentStack).isEmpty")
	bnf := c.Fn("(*Store).buildNewFooter")
	fn := c.fname(persist)
	n := 0
	for _, b := range persist.Blocks {
		iff, ok := b.Instrs[len(b.Instrs)-1].(*ssa.If)
		if !ok {
			continue
		}
		call, ok := iff.Cond.(*ssa.Call)
		if !ok || call.Call.StaticCallee() != isEmpty {
			continue
		}
		n++
		// does the true edge lead to a return that bypasses buildNewFooter?
		skips := false
		walk(point{b.Succs[0], 0}, walkOpts{visit: func(i ssa.Instruction, t *tracker) bool {
			if isCallOf(i, bnf) {
				return true
			}
			if _, isRet := i.(*ssa.Return); isRet {
				skips = true
				return true
			}
			return false
		}})
		if !skips {
			o.add(fn, "isEmpty() does not skip buildNewFooter", c.instrPos(iff), true, "an empty incoming stack still goes through buildNewFooter")
			continue
		}
		// the decision must have looked at the store's children
		looks := false
		helperWhy := ""
		for _, a := range fieldAccesses(persist, func(v *types.Var) bool { return v.Name() == "ChildFooters" }) {
			if mustPrecede(persist, b.Succs[0].Instrs[0], func(i ssa.Instruction) bool { return i == a.Instr }, nil) {
				looks = true
			}
		}
		// ... or through a helper that compares the footer's children with the incoming stack's: a call on every path
		// to the skip whose callee (transitively) reads ChildFooters and is handed the incoming stack
		ssArg := call.Call.Args[0]
		for _, ci := range callsIn(persist, func(ci ssa.CallInstruction) bool {
			h := staticCallee(ci)
			return h != nil && h.Pkg == c.Moss && h != isEmpty && readsFieldDeep(c, h, "ChildFooters", 3)
		}) {
			takesStack := false
			for _, a := range ci.Common().Args {
				for _, og := range origins(a) {
					for _, og2 := range origins(ssArg) {
						if og == og2 {
							takesStack = true
						}
					}
				}
			}
			if !takesStack || !mustPrecede(persist, skipReturn(b.Succs[0]), func(i ssa.Instruction) bool { return i == ci.(ssa.Instruction) }, nil) {
				continue
			}
			// ... and the skip is taken only on one outcome of the comparison: from the other edge of the test of
			// the helper's result the skipping return is not reachable without passing buildNewFooter
			cv, isVal := ci.(ssa.Value)
			if !isVal {
				continue
			}
			ret := skipReturn(b.Succs[0])
			decided := false
			for _, tb := range persist.Blocks {
				tif, isIf := tb.Instrs[len(tb.Instrs)-1].(*ssa.If)
				if !isIf {
					continue
				}
				cond := tif.Cond
				for {
					if u, isU := cond.(*ssa.UnOp); isU && u.Op == token.NOT {
						cond = u.X
						continue
					}
					break
				}
				fromHelper := false
				for _, og := range origins(cond) {
					if og == cv {
						fromHelper = true
					}
				}
				if !fromHelper {
					continue
				}
				reach := func(start *ssa.BasicBlock) bool {
					hit := false
					walk(point{start, 0}, walkOpts{visit: func(i ssa.Instruction, t *tracker) bool {
						if i == ret {
							hit = true
							return true
						}
						return isCallOf(i, bnf)
					}})
					return hit
				}
				if reach(tb.Succs[0]) != reach(tb.Succs[1]) {
					decided = true
				}
			}
			if decided {
				looks = true
				// the comparison itself must be able to see an absence on either side, at every level: it ranges over
				// the footer's children or compares the sizes of the two child maps (a loop over the incoming stack's
				// children alone cannot see a child that is only in the footer - a deletion), and it calls itself on
				// the children (a grandchild created or deleted by a data-less batch is a change, too)
				if h := staticCallee(ci); h != nil {
					symmetric := len(rangeLoopsOver(h, "ChildFooters")) > 0
					eachInstr(h, func(j ssa.Instruction) {
						b, isB := j.(*ssa.BinOp)
						if !isB || (b.Op != token.EQL && b.Op != token.NEQ) {
							return
						}
						lenOf := func(v ssa.Value) string {
							call, isCall := v.(*ssa.Call)
							if !isCall {
								return ""
							}
							if bi, isBi := call.Call.Value.(*ssa.Builtin); !isBi || bi.Name() != "len" {
								return ""
							}
							if fv := childMapOf(call.Call.Args[0]); fv != nil {
								return fv.Name()
							}
							return ""
						}
						x, y := lenOf(b.X), lenOf(b.Y)
						if (x == "ChildFooters" && y == "childSegStacks") || (x == "childSegStacks" && y == "ChildFooters") {
							symmetric = true
						}
					})
					recursive := false
					for mn := range childMapNames {
						for _, scc := range rangeLoopsOver(h, mn) {
							eachInstr(h, func(j ssa.Instruction) {
								if k2, isC := j.(ssa.CallInstruction); isC && k2.Common().StaticCallee() == h && scc[j.Block()] {
									recursive = true
								}
							})
						}
					}
					if !symmetric {
						looks = false
						helperWhy = h.Name() + "() only walks the incoming stack's children and never compares the number of children: a child that is in the footer but no longer in the stack (a deletion) is invisible to it"
					} else if !recursive {
						looks = false
						helperWhy = h.Name() + "() does not call itself on the children: a data-less batch that creates or deletes a grandchild collection looks unchanged"
					}
				}
			}
		}
		why := "the skip also consults the store footer's ChildFooters"
		if !looks && helperWhy != "" {
			o.add(fn, "skip on isEmpty() is deletion-aware", c.instrPos(iff), false, "persist skips the round on a child-tree comparison that cannot see every change: "+helperWhy+" - the batch is never persisted and the deleted (grand)child is back after reopen")
			continue
		}
		if !looks {
			why = "persist returns without building a new footer whenever the incoming stack has no segments, without looking at the store footer's ChildFooters: a batch that only deletes a child collection is never persisted - after reopen the child and all its data are back"
		}
		o.add(fn, "skip on isEmpty() is deletion-aware", c.instrPos(iff), looks, why)
	}
	if n == 0 {
		o.trivial(fn, "skip on isEmpty()", c.pos(persist.Pos()), "persist no longer skips rounds on isEmpty(): nothing to require")
	}
	return o.list
}

func ruleRef3(c *Ctx) []*Ob {
	o := newObs(c, "REF-3")
	type rel struct {
		fn     string
		tn     string
		owning []string
	}
	table := []rel{
		{"(*segmentStack).decRef", "segmentStack", []string{"lowerLevelSnapshot"}},
		{"(*SnapshotWrapper).decRef", "SnapshotWrapper", []string{"ss", "closer"}},
		{"(*Footer).DecRef", "Footer", []string{"SegmentLocs"}},
		{"(*mmapRef).DecRef", "mmapRef", []string{"mm", "fref"}},
		{"(*FileRef).DecRef", "FileRef", []string{"file"}},
	}
	releaseNames := map[string]bool{"Close": true, "DecRef": true, "decRef": true, "Unmap": true}
	for _, r := range table {
		f0 := c.Fn(r.fn)
		parts := zeroRegion(c, f0)
		if parts == nil {
			o.add(r.fn, "zero branch", c.pos(f0.Pos()), false, "anchor lost: no `refs <= 0` branch in the release function")
			continue
		}
		for _, fld := range r.owning {
			found := false
			var at ssa.Instruction
			for _, part := range parts {
				f, in := part.f, part.in
				eachInstr(f, func(i ssa.Instruction) {
					ci, ok := i.(ssa.CallInstruction)
					if !ok || !in(i.Block()) {
						return
					}
					cc := ci.Common()
					name := ""
					var recv ssa.Value
					if cc.IsInvoke() {
						name, recv = cc.Method.Name(), cc.Value
					} else if sf := cc.StaticCallee(); sf != nil && len(cc.Args) > 0 {
						name, recv = sf.Name(), cc.Args[0]
					}
					if !releaseNames[name] || recv == nil {
						return
					}
					hit := backSlice(recv, func(v ssa.Value) bool {
						fv, base := loadedField(v)
						if fv != nil && fv.Name() == fld && typeName(base.Type()) == r.tn {
							return true
						}
						// address-of field used as pointer receiver: (*T).M(&x.f)
						if fa, ok := v.(*ssa.FieldAddr); ok {
							if av := fieldAddrVar(fa); av != nil && av.Name() == fld && typeName(fa.X.Type()) == r.tn {
								return true
							}
						}
						return false
					})
					if hit {
						found = true
						at = i
					}
				})
			}
			construct := "zero branch releases " + r.tn + "." + fld
			if found {
				o.add(r.fn, construct, c.instrPos(at), true, "released when the count reaches zero")
				// and cleared, like in every sibling: moss over-decrements some stacks (idle merger), so a
				// field that still points at what was released would be released a second time
				cleared := false
				for _, part := range parts {
					for _, a := range fieldAccesses(part.f, func(v *types.Var) bool { return v.Name() == fld }) {
						if a.Kind == "store" && isNilConst(a.Val) && typeName(a.Base.Type()) == r.tn && part.in(a.Instr.Block()) {
							cleared = true
						}
					}
				}
				whyc := "the field is set to nil after its release"
				if !cleared {
					whyc = "the released " + r.tn + "." + fld + " is not cleared although every sibling release function clears what it released: a later over-decrement (the idle merger closes an empty stack more often than it references it) releases it again, taking a reference that belongs to another holder"
				}
				o.add(r.fn, "zero branch clears "+r.tn+"."+fld, c.instrPos(at), cleared, whyc)
			} else {
				o.add(r.fn, construct, c.pos(f0.Pos()), false,
					"when the last reference goes, "+r.tn+"."+fld+" is not released: the resource below it leaks (mapping / descriptor / lower-level snapshot stays open)")
			}
		}
	}
	// sibling agreement on the zero test: signed counters are tested with <= 0
	for _, rl := range table {
		f := c.Fn(rl.fn)
		for _, b := range f.Blocks {
			iff, ok := b.Instrs[len(b.Instrs)-1].(*ssa.If)
			if !ok {
				continue
			}
			cmp, ok := iff.Cond.(*ssa.BinOp)
			if !ok {
				continue
			}
			fv, _ := loadedField(cmp.X)
			if fv == nil || (fv.Name() != "refs" && fv.Name() != "refCount") {
				continue
			}
			if n, isInt := constInt(cmp.Y); !isInt || n != 0 {
				continue
			}
			if bt, isB := fv.Type().Underlying().(*types.Basic); isB && bt.Info()&types.IsUnsigned != 0 {
				continue // unsigned: == 0 and <= 0 coincide
			}
			ok2 := cmp.Op == token.LEQ || cmp.Op == token.GTR
			why := "the release branch is taken for refs <= 0, like in the sibling release functions"
			if !ok2 {
				why = "the release branch tests refs " + cmp.Op.String() + " 0 while its siblings test <= 0: moss closes some stacks more often than it references them (idle merger), so a count that skips 0 never releases what it owns"
			}
			o.add(rl.fn, "zero test operator", c.instrPos(iff), ok2, why)
		}
	}
	// Store.Close releases the footer when refs reach zero
	sc := c.Fn("(*Store).Close")
	found := false
	var at ssa.Instruction
	eachInstr(sc, func(i ssa.Instruction) {
		ci, ok := i.(ssa.CallInstruction)
		if !ok {
			return
		}
		sf := ci.Common().StaticCallee()
		if sf == nil || !(sf.Name() == "Close" || sf.Name() == "DecRef") || len(ci.Common().Args) == 0 {
			return
		}
		if backSlice(ci.Common().Args[0], func(v ssa.Value) bool {
			fv, base := loadedField(v)
			return fv != nil && fv.Name() == "footer" && typeName(base.Type()) == "Store"
		}) {
			found = true
			at = i
		}
	})
	if found {
		o.add(c.fname(sc), "releases Store.footer", c.instrPos(at), true, "the store's footer reference is released by Close")
	} else {
		o.add(c.fname(sc), "releases Store.footer", c.pos(sc.Pos()), false, "Store.Close no longer releases the store's footer: the data file stays mapped and open")
	}
	return o.list
}

func init() {
	register(&Rule{
		ID: "GAUGE-1",
		Doc: "Every segment counts: in segmentStack.Stats the loop over ss.a adds to the statistics in every iteration (each accumulating store lies in a block that dominates every back edge of the " +
			"loop - no conditional skip), and CurSegments is len(ss.a) or is incremented in the same unconditional way. The dirty gauges, and with them 'zero means persisted' and the merger's " +
			"and persister's wake-up predicates, are sums of these numbers; a segment that is skipped (say, because it has no operations of its own) is work the gauges deny.",
		Props: []string{"C20", "C16"},
		Floor: 2,
		Run:   ruleGauge1,
	})
}

func ruleGauge1(c *Ctx) []*Ob {
	o := newObs(c, "GAUGE-1")
	f := c.Fn("(*segmentStack).Stats")
	fn := c.fname(f)
	fA := c.Field("segmentStack", "a")
	fSegs := c.Field("SegmentStackStats", "CurSegments")
	stat := map[*types.Var]bool{fSegs: true, c.Field("SegmentStackStats", "CurOps"): true, c.Field("SegmentStackStats", "CurBytes"): true}
	// the loop over ss.a
	var scc map[*ssa.BasicBlock]bool
	var header *ssa.BasicBlock
	eachInstr(f, func(i ssa.Instruction) {
		if scc != nil {
			return
		}
		ia, ok := i.(*ssa.IndexAddr)
		if !ok {
			return
		}
		if fv, _ := loadedField(ia.X); fv == fA {
			scc = sccOf(f, ia.Block())
		}
	})
	if scc == nil {
		o.add(fn, "loop over ss.a", c.pos(f.Pos()), false, "anchor lost: Stats no longer walks the stack's segments")
		return o.list
	}
	// latches: blocks inside the loop with an edge to a loop block that dominates them (the header)
	var latches []*ssa.BasicBlock
	for b := range scc {
		for _, s := range b.Succs {
			if scc[s] && s.Dominates(b) {
				latches = append(latches, b)
				header = s
			}
		}
	}
	_ = header
	segsOK, segsHow := false, ""
	for _, a := range fieldAccesses(f, func(v *types.Var) bool { return stat[v] }) {
		if a.Kind != "store" {
			continue
		}
		if !scc[a.Instr.Block()] {
			if a.Field == fSegs {
				// CurSegments: uint64(len(ss.a))
				for _, og := range origins(a.Val) {
					v := og
					if cv, isCv := v.(*ssa.Convert); isCv {
						v = cv.X
					}
					if call, isC := v.(*ssa.Call); isC {
						if b, isB := call.Call.Value.(*ssa.Builtin); isB && b.Name() == "len" && len(call.Call.Args) == 1 {
							if fv, _ := loadedField(call.Call.Args[0]); fv == fA {
								segsOK, segsHow = true, "CurSegments = len(ss.a)"
							}
						}
					}
				}
			}
			continue
		}
		every := true
		for _, l := range latches {
			if !a.Instr.Block().Dominates(l) {
				every = false
			}
		}
		if a.Field == fSegs && every {
			segsOK, segsHow = true, "CurSegments is incremented in every iteration"
		}
		why := "added in every iteration of the loop over ss.a"
		if !every {
			why = "this addition is skipped for some segments (a conditional `continue` in the loop over ss.a): the gauges under-report the dirty work - zero no longer means 'everything is in the lower level', and wake-up / back-pressure predicates ignore those segments"
		}
		o.add(fn, "accumulate "+a.Field.Name(), c.instrPos(a.Instr), every, why)
	}
	why := segsHow
	if !segsOK {
		why = "CurSegments is neither len(ss.a) nor incremented in every iteration: segments are missing from the CurDirtySegments gauges"
	}
	o.add(fn, "CurSegments covers every segment", c.pos(f.Pos()), segsOK, why)
	return o.list
}

func init() {
	register(&Rule{
		ID: "COV-4",
		Doc: "The file of a store is a fact about the whole footer tree: a FileRef that is put to use (AddRef, Stat, persistFooter's file, removeFileOnClose, a return) is not derived from a fixed element " +
			"of one footer's SegmentLocs (`slocs[0].mref.fref`) - the top-level footer has no segments when only child collections were ever written - but from the tree-aware accessor " +
			"Footer.mmapRef / Footer.fileRef, the only functions allowed to index SegmentLocs for that purpose (they fall back to the child footers). Reading such an element only to validate " +
			"it (nil checks) is fine. Found as D21/D22/D23: startOrReuseFile, snapshotPrevious, snapshotRevert and compactMaybe each took the file from slocs[0].",
		Props:      []string{"C11", "C12", "C07", "C20"},
		Floor:      1,
		Run:        ruleCov4,
		Exceptions: []string{"calcPartialCompactionStart: decides about the segment list it was given; slocs[0]'s file is stat'ed only behind compStartIdx > 0 (the list has at least two segments)"},
	})
}

func ruleCov4(c *Ctx) []*Ob {
	o := newObs(c, "COV-4")
	fMref := c.Field("SegmentLoc", "mref")
	fFref := c.Field("mmapRef", "fref")
	allowed := map[string]bool{"(*Footer).mmapRef": true, "(*Footer).fileRef": true}
	// is v used for anything but nil comparisons (directly or through further field reads)?
	var usedForReal func(v ssa.Value, d int) (bool, ssa.Instruction)
	usedForReal = func(v ssa.Value, d int) (bool, ssa.Instruction) {
		refs := v.Referrers()
		if refs == nil || d > 6 {
			return false, nil
		}
		for _, r := range *refs {
			switch x := r.(type) {
			case *ssa.DebugRef:
			case *ssa.BinOp:
				if (x.Op == token.EQL || x.Op == token.NEQ) && (isNilConst(x.X) || isNilConst(x.Y)) {
					continue
				}
				return true, r
			case *ssa.FieldAddr:
				if u, at := usedForReal(x, d+1); u {
					return true, at
				}
			case *ssa.UnOp:
				if x.Op == token.MUL {
					if u, at := usedForReal(x, d+1); u {
						return true, at
					}
					continue
				}
				return true, r
			case *ssa.Phi:
				if u, at := usedForReal(x, d+1); u {
					return true, at
				}
			case *ssa.Store:
				if a, isA := x.Addr.(*ssa.Alloc); isA && !a.Heap && x.Val == v {
					// a local variable: follow its loads
					if rr := a.Referrers(); rr != nil {
						for _, u := range *rr {
							if ld, isLd := u.(*ssa.UnOp); isLd && ld.Op == token.MUL {
								if uu, at := usedForReal(ld, d+1); uu {
									return true, at
								}
							}
						}
					}
					continue
				}
				return true, r
			default:
				return true, r
			}
		}
		return false, nil
	}
	n := 0
	for _, f := range c.Funcs {
		if c.isHarness(f) {
			continue
		}
		fn := c.fname(f)
		eachInstr(f, func(i ssa.Instruction) {
			ia, ok := i.(*ssa.IndexAddr)
			if !ok {
				return
			}
			if _, isK := ia.Index.(*ssa.Const); !isK {
				return
			}
			var elem types.Type
			switch t := ia.X.Type().Underlying().(type) {
			case *types.Slice:
				elem = t.Elem()
			case *types.Pointer:
				if at, isArr := t.Elem().Underlying().(*types.Array); isArr {
					elem = at.Elem()
				}
			}
			if elem == nil || typeName(elem) != "SegmentLoc" {
				return
			}
			// ia -> .mref -> load -> .fref -> load
			refs := ia.Referrers()
			if refs == nil {
				return
			}
			for _, r := range *refs {
				fa, isFA := r.(*ssa.FieldAddr)
				if !isFA || fieldAddrVar(fa) != fMref {
					continue
				}
				for _, mrefLoad := range loadsOf(fa) {
					for _, r2 := range derefs(mrefLoad) {
						fa2, isFA2 := r2.(*ssa.FieldAddr)
						if !isFA2 || fieldAddrVar(fa2) != fFref {
							continue
						}
						for _, frefLoad := range loadsOf(fa2) {
							n++
							if allowed[fn] {
								o.add(fn, "file from SegmentLocs["+ia.Index.Name()+"]", c.instrPos(ia), true, "the tree-aware accessor itself")
								continue
							}
							if fn == "calcPartialCompactionStart" {
								o.trivial(fn, "file from SegmentLocs["+ia.Index.Name()+"]", c.instrPos(ia),
									"table exception: the function decides about the list it was given and reads the file size only behind compStartIdx > 0, i.e. when that list has at least two segments")
								continue
							}
							used, at := usedForReal(frefLoad, 0)
							why := "read only to validate it (nil checks)"
							if used {
								why = "the file is taken from a fixed element of one footer's SegmentLocs and used at " + c.instrPos(at) +
									": when only child collections hold data the top-level list is empty (guarded: the step is silently skipped; unguarded: index out of range) - " +
									"persist started a new file every round (D21), history could not be walked or reverted (D22), the superseded file survived a full compaction (D23)"
							}
							o.add(fn, "file from SegmentLocs["+ia.Index.Name()+"]", c.instrPos(ia), !used, why)
						}
					}
				}
			}
		})
	}
	if n == 0 {
		o.trivial("-", "no file is derived from a fixed SegmentLocs element", "-", "nothing to decide")
	}
	return o.list
}

// loadsOf: the loads through address a (directly, or via a local it was copied into is not followed).
func loadsOf(a ssa.Value) []ssa.Value {
	var out []ssa.Value
	if refs := a.Referrers(); refs != nil {
		for _, r := range *refs {
			if ld, ok := r.(*ssa.UnOp); ok && ld.Op == token.MUL {
				out = append(out, ld)
			}
		}
	}
	return out
}

// derefs: instructions that use pointer value p (through phis and local cells) as the base of a field address.
func derefs(p ssa.Value) []ssa.Instruction {
	var out []ssa.Instruction
	seen := map[ssa.Value]bool{}
	var rec func(v ssa.Value, d int)
	rec = func(v ssa.Value, d int) {
		if seen[v] || d > 6 {
			return
		}
		seen[v] = true
		refs := v.Referrers()
		if refs == nil {
			return
		}
		for _, r := range *refs {
			switch x := r.(type) {
			case *ssa.FieldAddr:
				out = append(out, x)
			case *ssa.Phi:
				rec(x, d+1)
			case *ssa.Store:
				if a, isA := x.Addr.(*ssa.Alloc); isA && x.Val == v {
					for _, ld := range loadsOf(a) {
						rec(ld, d+1)
					}
				}
			}
		}
	}
	rec(p, 0)
	return out
}

func init() {
	register(&Rule{
		ID: "COV-5",
		Doc: "What is refreshed for a stack is refreshed for its children: a function that stores a (non-nil) lowerLevelSnapshot into a segmentStack that is shared - reached through one of the " +
			"collection's section pointers, not freshly built - also hands that stack to a walker that ranges over the child stacks and stores their lowerLevelSnapshot (refreshChildLLSnapshots). " +
			"The child stacks resolve their merge operands through their own lowerLevelSnapshot; re-stamping only the top level at hand-over (the MB-19667 repair) left the children on the " +
			"snapshot of the merger cycle's start (D25).",
		Props: []string{"C08", "C11", "C13"},
		Floor: 1,
		Run:   ruleCov5,
	})
}

func ruleCov5(c *Ctx) []*Ob {
	o := newObs(c, "COV-5")
	fLL := c.Field("segmentStack", "lowerLevelSnapshot")
	// walkers: functions that range over childSegStacks and store lowerLevelSnapshot on a child (recursively)
	isWalker := map[*ssa.Function]bool{}
	for _, g := range c.Funcs {
		if len(rangeLoopsOver(g, "childSegStacks")) == 0 && len(rangeLoopsOver(g, "childCollections")) == 0 {
			continue
		}
		storesLL, recurses := false, false
		for _, a := range fieldAccesses(g, func(v *types.Var) bool { return v == fLL }) {
			if a.Kind == "store" {
				storesLL = true
			}
		}
		eachInstr(g, func(i ssa.Instruction) {
			if ci, ok := i.(ssa.CallInstruction); ok && ci.Common().StaticCallee() == g {
				recurses = true
			}
		})
		if storesLL && recurses {
			isWalker[g] = true
		}
	}
	n := 0
	for _, f := range c.Funcs {
		if c.isHarness(f) || isWalker[f] {
			continue
		}
		fn := c.fname(f)
		for _, a := range fieldAccesses(f, func(v *types.Var) bool { return v == fLL }) {
			if a.Kind != "store" || isNilConst(a.Val) || isFreshAlloc(a.Base) {
				continue
			}
			shared := false
			for _, og := range origins(a.Base) {
				if fv, _ := loadedField(og); fv != nil && isSectionField(c, fv) {
					shared = true
				}
			}
			if !shared {
				continue
			}
			n++
			covered := ""
			eachInstr(f, func(i ssa.Instruction) {
				call, ok := i.(*ssa.Call)
				if !ok || covered != "" {
					return
				}
				g := call.Call.StaticCallee()
				if g == nil || !isWalker[g] {
					return
				}
				for _, arg := range call.Call.Args {
					if sameValue(arg, a.Base) {
						covered = c.fname(g) + " at " + c.instrPos(i)
					}
					for _, x := range origins(arg) {
						for _, y := range origins(a.Base) {
							fx, bx := loadedField(x)
							fy, by := loadedField(y)
							if x == y || (fx != nil && fx == fy && bx != nil && by != nil && canonKey(bx) == canonKey(by)) {
								covered = c.fname(g) + " at " + c.instrPos(i)
							}
						}
					}
				}
			})
			why := "the child stacks are refreshed by " + covered
			if covered == "" {
				why = "the shared stack's lowerLevelSnapshot is replaced but its child stacks keep theirs: a child's merge operands are then resolved through a snapshot that misses what was persisted meanwhile - the operands written by that persist are lost for good (\":b:c:d\" instead of \"a:b:c:d\")"
			}
			o.add(fn, "store "+accessPath(a.Base)+".lowerLevelSnapshot", c.instrPos(a.Instr), covered != "", why)
		}
	}
	if n == 0 {
		o.trivial("-", "no shared stack's lowerLevelSnapshot is replaced", "-", "nothing to decide")
	}
	return o.list
}

// ---------------------------------------------------------------- COV-6

// blockReach: blocks reachable from `from` without entering `avoid` and without taking a loop's back edge.
func blockReach(from, avoid *ssa.BasicBlock) map[*ssa.BasicBlock]bool {
	seen := map[*ssa.BasicBlock]bool{}
	var dfs func(b *ssa.BasicBlock)
	dfs = func(b *ssa.BasicBlock) {
		if b == avoid || seen[b] {
			return
		}
		seen[b] = true
		for _, s := range b.Succs {
			if s.Dominates(b) {
				continue // back edge: the next iteration is a new decision
			}
			dfs(s)
		}
	}
	dfs(from)
	return seen
}

// controllingIfs: the If instructions of site's function on which the execution of site depends: site is reachable
// from exactly one of the two successors (on paths that do not come back to the test).
func controllingIfs(site ssa.Instruction) []*ssa.If {
	var out []*ssa.If
	sb := site.Block()
	for _, d := range sb.Parent().Blocks {
		iff, ok := d.Instrs[len(d.Instrs)-1].(*ssa.If)
		if !ok || len(d.Succs) != 2 {
			continue
		}
		r0 := blockReach(d.Succs[0], d)[sb]
		r1 := blockReach(d.Succs[1], d)[sb]
		if r0 != r1 {
			out = append(out, iff)
			continue
		}
		// both sides can reach the site, but only one of them must (the other may return first): the classical
		// control dependence of `if c { if x { return } }; site`
		if r0 && r1 {
			memo := map[*ssa.BasicBlock]int{}
			var must func(b *ssa.BasicBlock) bool
			must = func(b *ssa.BasicBlock) bool {
				if b == sb {
					return true
				}
				switch memo[b] {
				case 1:
					return true
				case 2, 3:
					return false
				}
				memo[b] = 3
				n, ok := 0, true
				for _, s := range b.Succs {
					if s.Dominates(b) {
						continue
					}
					n++
					if !must(s) {
						ok = false
					}
				}
				if n == 0 {
					ok = false
				}
				if ok {
					memo[b] = 1
				} else {
					memo[b] = 2
				}
				return ok
			}
			if must(d.Succs[0]) != must(d.Succs[1]) {
				out = append(out, iff)
			}
		}
	}
	return out
}

func ruleCov6(c *Ctx) []*Ob {
	o := newObs(c, "COV-6")
	fWait := c.Field("collection", "waitDirtyIncomingCh")
	fPing := c.Field("collection", "pingMergerCh")
	notify := c.Fn("(*collection).NotifyMerger")
	// is segmentStack method h a pure content measure (reads only a / childSegStacks of the stack, transitively)?
	memo := map[*ssa.Function]int{}
	var pure func(h *ssa.Function) bool
	pure = func(h *ssa.Function) bool {
		switch memo[h] {
		case 1:
			return true
		case 2:
			return false
		case 3:
			return true // recursion: decided by the rest
		}
		memo[h] = 3
		ok := true
		for fld := range fieldsRead(h, "segmentStack", nil) {
			if fld != "a" && fld != "childSegStacks" {
				ok = false
			}
		}
		eachInstr(h, func(i ssa.Instruction) {
			if call, isCall := i.(*ssa.Call); isCall && ok {
				if g := call.Call.StaticCallee(); g != nil && g.Pkg == c.Moss && g.Signature.Recv() != nil && typeName(g.Signature.Recv().Type()) == "segmentStack" {
					ok = pure(g)
				}
			}
		})
		if ok {
			memo[h] = 1
		} else {
			memo[h] = 2
		}
		return ok
	}
	dirtySection := func(v ssa.Value) string {
		for _, og := range originsDeep(c, v) {
			if fs, _ := loadedField(og); fs != nil && (fs.Name() == "stackDirtyTop" || fs.Name() == "stackDirtyMid") {
				return fs.Name()
			}
		}
		return ""
	}
	type site struct {
		i    ssa.Instruction
		what string
	}
	for _, f := range c.Funcs {
		if !collectionMethod(f) || root(f) == notify {
			continue
		}
		var sites []site
		eachInstr(f, func(i ssa.Instruction) {
			switch x := i.(type) {
			case *ssa.Store:
				if fa, ok := x.Addr.(*ssa.FieldAddr); ok && fieldAddrVar(fa) == fWait {
					for _, og := range origins(x.Val) {
						if _, isMk := og.(*ssa.MakeChan); isMk {
							sites = append(sites, site{i, "arming of waitDirtyIncomingCh (merger goes to sleep)"})
							break
						}
					}
				}
			case *ssa.Send:
				if fv, _ := loadedField(x.Chan); fv == fPing {
					sites = append(sites, site{i, "ping of the merger"})
				}
			case *ssa.Select:
				for _, st := range x.States {
					if st.Dir == types.SendOnly {
						if fv, _ := loadedField(st.Chan); fv == fPing {
							sites = append(sites, site{i, "ping of the merger"})
						}
					}
				}
			}
		})
		fn := c.fname(f)
		for _, st := range sites {
			n := 0
			for _, iff := range controllingIfs(st.i) {
				cond := iff.Cond
				for {
					if u, isU := cond.(*ssa.UnOp); isU && u.Op == token.NOT {
						cond = u.X
						continue
					}
					break
				}
				var measures []ssa.Value
				if cmp, isB := cond.(*ssa.BinOp); isB {
					measures = append(measures, cmp.X, cmp.Y)
				} else {
					measures = append(measures, cond)
				}
				for _, mv := range measures {
					call, isCall := mv.(*ssa.Call)
					if !isCall {
						continue
					}
					if bi, isBi := call.Call.Value.(*ssa.Builtin); isBi && bi.Name() == "len" {
						fa, base := loadedField(call.Call.Args[0])
						if fa == nil || fa.Name() != "a" || typeName(base.Type()) != "segmentStack" {
							continue
						}
						if sect := dirtySection(base); sect != "" {
							n++
							o.add(fn, fmt.Sprintf("%s depends on len(%s.a)", st.what, sect), c.instrPos(iff), false,
								"the decision is taken from the number of segments of "+sect+": a non-nil "+sect+" that only creates or deletes a child collection has none, stays where it is and never reaches the lower level")
						}
						continue
					}
					h := call.Call.StaticCallee()
					if h == nil || h.Pkg != c.Moss || h.Signature.Recv() == nil || typeName(h.Signature.Recv().Type()) != "segmentStack" || len(call.Call.Args) == 0 {
						continue
					}
					sect := dirtySection(call.Call.Args[0])
					if sect == "" {
						continue
					}
					n++
					isPure := pure(h)
					why := h.Name() + "() consults more of the stack than its segments"
					if isPure {
						why = "the decision is taken from " + sect + "." + h.Name() + "(), a pure content measure (reads only a / childSegStacks): a non-nil " + sect +
							" that only creates or deletes a child collection looks empty, stays where it is and never reaches the lower level"
					}
					o.add(fn, fmt.Sprintf("%s depends on %s.%s()", st.what, sect, h.Name()), c.instrPos(iff), !isPure, why)
				}
			}
			if n == 0 {
				o.add(fn, st.what+" depends on no content measure of a dirty section", c.instrPos(st.i), true, "only nil tests (presence) of the dirty sections control this site")
			}
		}
	}
	return o.list
}

// readsFieldDeep: does h, or a moss function it calls statically (to the given depth), read a field of that name?
func readsFieldDeep(c *Ctx, h *ssa.Function, field string, depth int) bool {
	if h == nil || h.Blocks == nil {
		return false
	}
	if len(fieldAccesses(h, func(v *types.Var) bool { return v.Name() == field })) > 0 {
		return true
	}
	if depth == 0 {
		return false
	}
	found := false
	eachInstr(h, func(i ssa.Instruction) {
		if ci, ok := i.(ssa.CallInstruction); ok && !found {
			if g := staticCallee(ci); g != nil && g != h && g.Pkg == c.Moss && readsFieldDeep(c, g, field, depth-1) {
				found = true
			}
		}
	})
	return found
}

// skipReturn: the first Return reachable from block b (the return of a skip branch), or b's first instruction.
func skipReturn(b *ssa.BasicBlock) ssa.Instruction {
	seen := map[*ssa.BasicBlock]bool{}
	q := []*ssa.BasicBlock{b}
	for len(q) > 0 {
		x := q[0]
		q = q[1:]
		if seen[x] {
			continue
		}
		seen[x] = true
		for _, i := range x.Instrs {
			if r, ok := i.(*ssa.Return); ok {
				return r
			}
		}
		q = append(q, x.Succs...)
	}
	return b.Instrs[0]
}
