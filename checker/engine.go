package main

// engine.go: loading /repo's working tree, building SSA + call graph, and
// resolving the anchors (functions, fields, constants) the rule tables name.

import (
	"fmt"
	"go/token"
	"go/types"
	"os"
	"path/filepath"
	"sort"
	"strings"

	"golang.org/x/tools/go/callgraph"
	"golang.org/x/tools/go/callgraph/cha"
	"golang.org/x/tools/go/callgraph/vta"
	"golang.org/x/tools/go/packages"
	"golang.org/x/tools/go/ssa"
	"golang.org/x/tools/go/ssa/ssautil"
)

const mossPath = "github.com/couchbase/moss"

// BuildConfig is one way of building /repo (GOOS/GOARCH/tags).
type BuildConfig struct {
	Name   string
	GOOS   string
	GOARCH string
	Tags   string
	// MinFiles is the floor of production files confirmed by hand.
	MinFiles int
}

var defaultConfig = BuildConfig{Name: "linux/amd64", GOOS: "linux", GOARCH: "amd64", MinFiles: 24}

var thoroughConfigs = []BuildConfig{
	defaultConfig,
	{Name: "linux/386", GOOS: "linux", GOARCH: "386", MinFiles: 24},
	{Name: "windows/amd64", GOOS: "windows", GOARCH: "amd64", MinFiles: 24},
	{Name: "linux/amd64+gofuzz", GOOS: "linux", GOARCH: "amd64", Tags: "gofuzz", MinFiles: 25},
}

// brokenCheck is panicked with when the check itself cannot give a verdict
// (load failure, unresolved anchor, instance floor): exit 2, never a verdict.
type brokenCheck struct{ msg string }

func broken(format string, a ...interface{}) {
	panic(brokenCheck{fmt.Sprintf(format, a...)})
}

// Ctx is the loaded program for one build configuration.
type Ctx struct {
	Config  BuildConfig
	RepoDir string
	Fset    *token.FileSet
	Pkg     *packages.Package
	Prog    *ssa.Program
	Moss    *ssa.Package
	TPkg    *types.Package
	Files   []string

	Funcs  []*ssa.Function // every source function of moss incl. closures
	byName map[string]*ssa.Function

	cgVTA  *callgraph.Graph
	cgCHA  *callgraph.Graph
	UseCHA bool

	// cached analyses
	callersCache map[*ssa.Function][]callSite
}

type callSite struct {
	Caller *ssa.Function
	Instr  ssa.CallInstruction
}

func loadCtx(repoDir string, cfg BuildConfig) *Ctx {
	env := []string{}
	for _, e := range os.Environ() {
		if strings.HasPrefix(e, "GOWORK=") || strings.HasPrefix(e, "GOFLAGS=") ||
			strings.HasPrefix(e, "GOOS=") || strings.HasPrefix(e, "GOARCH=") ||
			strings.HasPrefix(e, "GOPROXY=") || strings.HasPrefix(e, "GOSUMDB=") ||
			strings.HasPrefix(e, "GOTOOLCHAIN=") || strings.HasPrefix(e, "CGO_ENABLED=") {
			continue
		}
		env = append(env, e)
	}
	env = append(env, "GOFLAGS=-mod=mod", "GOPROXY=off", "GOSUMDB=off",
		"GOTOOLCHAIN=local", "GOWORK=off", "GOOS="+cfg.GOOS, "GOARCH="+cfg.GOARCH,
		"CGO_ENABLED=0")
	pcfg := &packages.Config{
		Mode:  packages.LoadAllSyntax,
		Dir:   repoDir,
		Env:   env,
		Tests: false,
	}
	if cfg.Tags != "" {
		pcfg.BuildFlags = []string{"-tags=" + cfg.Tags}
	}
	pkgs, err := packages.Load(pcfg, "./...")
	if err != nil {
		broken("load %s: %v", cfg.Name, err)
	}
	if len(pkgs) == 0 {
		broken("load %s: zero packages", cfg.Name)
	}
	var mossPkg *packages.Package
	nerr := 0
	packages.Visit(pkgs, nil, func(p *packages.Package) {
		for _, e := range p.Errors {
			if p.PkgPath == mossPath || nerr < 5 {
				fmt.Fprintf(os.Stderr, "load error in %s: %v\n", p.PkgPath, e)
			}
			nerr++
		}
	})
	for _, p := range pkgs {
		if p.PkgPath == mossPath {
			mossPkg = p
		}
	}
	if nerr > 0 {
		broken("load %s: %d package errors (the tree does not type-check)", cfg.Name, nerr)
	}
	if mossPkg == nil {
		broken("load %s: package %s not found", cfg.Name, mossPath)
	}
	c := &Ctx{Config: cfg, RepoDir: repoDir, Fset: mossPkg.Fset, Pkg: mossPkg, TPkg: mossPkg.Types}
	for _, f := range mossPkg.CompiledGoFiles {
		c.Files = append(c.Files, filepath.Base(f))
	}
	sort.Strings(c.Files)
	if len(c.Files) < cfg.MinFiles {
		broken("load %s: only %d production files (floor %d)", cfg.Name, len(c.Files), cfg.MinFiles)
	}
	prog, ssaPkgs := ssautil.AllPackages(pkgs, ssa.InstantiateGenerics)
	prog.Build()
	c.Prog = prog
	for i, p := range pkgs {
		if p.PkgPath == mossPath {
			c.Moss = ssaPkgs[i]
		}
	}
	if c.Moss == nil {
		broken("ssa: no package for %s", mossPath)
	}
	c.collectFuncs()
	c.callersCache = map[*ssa.Function][]callSite{}
	return c
}

func (c *Ctx) collectFuncs() {
	seen := map[*ssa.Function]bool{}
	var add func(f *ssa.Function)
	add = func(f *ssa.Function) {
		if f == nil || seen[f] || f.Blocks == nil {
			return
		}
		if f.Synthetic != "" {
			return
		}
		if c.isHarness(f) {
			return // smat.go (build tag gofuzz): fuzzing harness, not library code
		}
		seen[f] = true
		c.Funcs = append(c.Funcs, f)
		for _, a := range f.AnonFuncs {
			add(a)
		}
	}
	for _, m := range c.Moss.Members {
		switch m := m.(type) {
		case *ssa.Function:
			add(m)
		case *ssa.Type:
			for _, t := range []types.Type{m.Type(), types.NewPointer(m.Type())} {
				ms := c.Prog.MethodSets.MethodSet(t)
				for i := 0; i < ms.Len(); i++ {
					f := c.Prog.MethodValue(ms.At(i))
					if f != nil && f.Pkg == c.Moss {
						add(f)
					}
				}
			}
		}
	}
	sort.Slice(c.Funcs, func(i, j int) bool { return c.Funcs[i].Pos() < c.Funcs[j].Pos() })
	c.byName = map[string]*ssa.Function{}
	for _, f := range c.Funcs {
		c.byName[c.fname(f)] = f
	}
	if len(c.Funcs) < 200 {
		broken("only %d moss functions found (floor 200)", len(c.Funcs))
	}
}

// isHarness: the function lives in smat.go, the gofuzz-tagged fuzzing harness.
func (c *Ctx) isHarness(f *ssa.Function) bool {
	r := root(f)
	if !r.Pos().IsValid() {
		return false
	}
	return filepath.Base(c.Fset.Position(r.Pos()).Filename) == "smat.go"
}

// fname is the stable name of a moss function: "(*Store).persist",
// "openStore", "openStore$1".
func (c *Ctx) fname(f *ssa.Function) string {
	if f == nil {
		return "<nil>"
	}
	return f.RelString(c.Moss.Pkg)
}

// Fn resolves a function anchor; an unresolved anchor breaks the check.
func (c *Ctx) Fn(name string) *ssa.Function {
	f := c.byName[name]
	if f == nil {
		broken("UNRESOLVED anchor=function %s (config %s)", name, c.Config.Name)
	}
	return f
}

// FnOpt is like Fn but returns nil for an absent function.
func (c *Ctx) FnOpt(name string) *ssa.Function { return c.byName[name] }

// Named resolves a package-level named type.
func (c *Ctx) Named(name string) *types.Named {
	o := c.TPkg.Scope().Lookup(name)
	if o == nil {
		broken("UNRESOLVED anchor=type %s", name)
	}
	n, ok := o.Type().(*types.Named)
	if !ok {
		broken("UNRESOLVED anchor=type %s is not named", name)
	}
	return n
}

// Field resolves a struct field anchor "Type.field".
func (c *Ctx) Field(typ, field string) *types.Var {
	n := c.Named(typ)
	st, ok := n.Underlying().(*types.Struct)
	if !ok {
		broken("UNRESOLVED anchor=%s is not a struct", typ)
	}
	for i := 0; i < st.NumFields(); i++ {
		if st.Field(i).Name() == field {
			return st.Field(i)
		}
	}
	broken("UNRESOLVED anchor=field %s.%s", typ, field)
	return nil
}

func (c *Ctx) FieldOpt(typ, field string) *types.Var {
	o := c.TPkg.Scope().Lookup(typ)
	if o == nil {
		return nil
	}
	st, ok := o.Type().Underlying().(*types.Struct)
	if !ok {
		return nil
	}
	for i := 0; i < st.NumFields(); i++ {
		if st.Field(i).Name() == field {
			return st.Field(i)
		}
	}
	return nil
}

// Const resolves a package-level constant.
func (c *Ctx) Const(name string) *types.Const {
	o := c.TPkg.Scope().Lookup(name)
	k, ok := o.(*types.Const)
	if !ok {
		broken("UNRESOLVED anchor=const %s", name)
	}
	return k
}

// Global resolves a package-level variable.
func (c *Ctx) Global(name string) *ssa.Global {
	m, ok := c.Moss.Members[name].(*ssa.Global)
	if !ok {
		broken("UNRESOLVED anchor=var %s", name)
	}
	return m
}

func (c *Ctx) pos(p token.Pos) string {
	if !p.IsValid() {
		return "?"
	}
	pp := c.Fset.Position(p)
	return fmt.Sprintf("%s:%d", filepath.Base(pp.Filename), pp.Line)
}

func (c *Ctx) instrPos(i ssa.Instruction) string {
	if i == nil {
		return "?"
	}
	if p := i.Pos(); p.IsValid() {
		return c.pos(p)
	}
	// fall back: nearest positioned instruction in the block, else function.
	if b := i.Block(); b != nil {
		for _, j := range b.Instrs {
			if j.Pos().IsValid() {
				return c.pos(j.Pos()) + "~"
			}
		}
		return c.pos(b.Parent().Pos()) + "~"
	}
	return "?"
}

// root returns the declared function a closure belongs to.
func root(f *ssa.Function) *ssa.Function {
	for f.Parent() != nil {
		f = f.Parent()
	}
	return f
}

// CG returns the call graph in use (VTA seeded by CHA, or plain CHA).
func (c *Ctx) CG() *callgraph.Graph {
	if c.cgCHA == nil {
		c.cgCHA = cha.CallGraph(c.Prog)
	}
	if c.UseCHA {
		return c.cgCHA
	}
	if c.cgVTA == nil {
		c.cgVTA = vta.CallGraph(ssautil.AllFunctions(c.Prog), c.cgCHA)
	}
	return c.cgVTA
}

// Callers lists the call sites (in moss source functions) that may call f.
func (c *Ctx) Callers(f *ssa.Function) []callSite {
	if cs, ok := c.callersCache[f]; ok {
		return cs
	}
	var out []callSite
	if n := c.CG().Nodes[f]; n != nil {
		for _, e := range n.In {
			if e.Caller == nil || e.Caller.Func == nil || e.Site == nil {
				continue
			}
			if e.Caller.Func.Pkg != c.Moss && (e.Caller.Func.Parent() == nil || root(e.Caller.Func).Pkg != c.Moss) {
				continue
			}
			if e.Caller.Func.Synthetic != "" || c.isHarness(e.Caller.Func) {
				continue
			}
			out = append(out, callSite{e.Caller.Func, e.Site})
		}
	}
	sort.Slice(out, func(i, j int) bool { return out[i].Instr.Pos() < out[j].Instr.Pos() })
	c.callersCache[f] = out
	return out
}

// Callees lists the moss source functions a call instruction may invoke.
func (c *Ctx) Callees(site ssa.CallInstruction) []*ssa.Function {
	if f := site.Common().StaticCallee(); f != nil {
		return []*ssa.Function{f}
	}
	var out []*ssa.Function
	caller := site.Parent()
	if n := c.CG().Nodes[caller]; n != nil {
		for _, e := range n.Out {
			if e.Site == site && e.Callee != nil && e.Callee.Func != nil {
				out = append(out, e.Callee.Func)
			}
		}
	}
	return out
}

func (c *Ctx) cgStats() (nodes, edges int) {
	for f, n := range c.CG().Nodes {
		if f == nil {
			continue
		}
		if f.Pkg == c.Moss || (f.Parent() != nil && root(f).Pkg == c.Moss) {
			nodes++
			edges += len(n.Out)
		}
	}
	return
}

// FieldOwner: the name of the moss struct type that declares field fv ("" if none).
func (c *Ctx) FieldOwner(fv *types.Var) string {
	sc := c.TPkg.Scope()
	for _, n := range sc.Names() {
		tn, ok := sc.Lookup(n).(*types.TypeName)
		if !ok {
			continue
		}
		st, ok := tn.Type().Underlying().(*types.Struct)
		if !ok {
			continue
		}
		for i := 0; i < st.NumFields(); i++ {
			if st.Field(i) == fv {
				return n
			}
		}
	}
	return ""
}
