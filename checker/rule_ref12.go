package main

// REF-1 (local acquire/release pairing) and REF-2 (a swap releases the
// old value): C15, C02, C12.

import (
	"fmt"
	"go/token"
	"go/types"
	"sort"
	"strings"

	"golang.org/x/tools/go/ssa"
)

func init() {
	register(&Rule{
		ID: "REF-1",
		Doc: "Local tokens: acquire operations are addRef/AddRef (token = the object; SnapshotWrapper.addRef and FileRef.AddRef are keyed on the object too), Footer.segmentLocs() (acquires its " +
			"receiver), Store.snapshot(), ChildCollectionSnapshot, startOrReuseFile/startFileLOCKED (owned FileRef) and NewSnapshotWrapper. For a token acquired in function F, along every path " +
			"to a return the number of releases (decRef/DecRef/Close on the same object, deferred ones included) equals the number of acquisitions, unless the token escapes on that path " +
			"(returned, stored in a field/global/map/captured variable, sent, or passed as a non-receiver argument – an ownership transfer, on which the rule is silent) or the path is the " +
			"token == nil branch or the failure branch of the acquiring call. Too few releases leak a mapping/descriptor; too many unmap data under a live handle.",
		Props: []string{"C15", "C02", "C12"},
		Floor: 18,
		Run:   ruleRef1,
	})
	register(&Rule{
		ID: "REF-2",
		Doc: "A swap releases the old value: for every store to an owning field (collection.stackDirtyTop/Mid/Base/Clean/lowerLevelSnapshot/latestSnapshot, Store.footer, " +
			"segmentStack.lowerLevelSnapshot) of a shared object, the function (for a callback closure: the function that installs it) loads the old value of that field and either releases it " +
			"(Close/decRef/DecRef), stores it into another owning field (transfer), or the store only happens when the field was nil. Otherwise the reference held by the field leaks and the file " +
			"it pins is never removed.",
		Props: []string{"C15", "C02"},
		Floor: 12,
		Run:   ruleRef2,
		Exceptions: []string{
			"(*collection).Snapshot store of latestSnapshot: reached only when reuseSnapshot(m.latestSnapshot) returned nil, i.e. the cache is empty",
		},
	})
}

// ---------------------------------------------------------------- REF-1

type refEvent struct {
	instr ssa.Instruction
	tok   ssa.Value // the object acquired / released
	kind  string    // "acq", "rel", "defer-rel"
	// errCall: for acquisitions through a call that also returns an error
	errCall *ssa.Call
}

// refWrapper: functions that acquire on behalf of their caller.
var refWrapper = map[string]bool{"AddRef": true, "addRef": true, "segmentLocs": true, "reuseSnapshot": true}

var acquireMethods = map[string]bool{"addRef": true, "AddRef": true}
var releaseMethods = map[string]bool{"decRef": true, "DecRef": true, "Close": true}

func init() {
	register(&Rule{
		ID: "REF-10",
		Doc: "Consumed parameters: a function that releases (Close/DecRef/decRef) one of its reference-counted parameters on some path has taken over the caller's reference, " +
			"so every path from its entry to a return releases that parameter exactly once, hands it on (stored, returned, passed to a consuming callee) or runs where the parameter is nil. " +
			"Sibling paths of one function must agree on who owns the reference (mergerMain's error branch vs its success path).",
		Props: []string{"C15", "C02"},
		Floor: 2,
		Run:   ruleRef10,
	})
}

func ruleRef10(c *Ctx) []*Ob {
	o := newObs(c, "REF-10")
	for _, f := range c.Funcs {
		if c.isHarness(f) || len(f.Blocks) == 0 {
			continue
		}
		fn := c.fname(f)
		evs := refEvents(c, f)
		byParam := map[*ssa.Parameter][]refEvent{}
		for _, e := range evs {
			if e.kind != "rel" && e.kind != "defer-rel" {
				continue
			}
			for _, p := range f.Params {
				if canonKey(e.tok) == canonKey(p) && refCountedType(p.Type()) {
					byParam[p] = append(byParam[p], e)
				}
			}
		}
		for _, p := range f.Params {
			g := byParam[p]
			if len(g) == 0 {
				continue
			}
			isRecv := f.Signature.Recv() != nil && len(f.Params) > 0 && f.Params[0] == p
			construct := "parameter " + p.Name()
			if isRecv {
				construct = "receiver " + p.Name()
			}
			if isRecv && releaseMethods[f.Name()] {
				o.trivial(fn, construct, c.pos(f.Pos()), "the function is itself a release method of its receiver")
				continue
			}
			// all events of this object (acquisitions inside f count as usual)
			var all []refEvent
			nacq := 0
			for _, e := range evs {
				if canonKey(e.tok) == canonKey(p) {
					all = append(all, e)
					if e.kind == "acq" {
						nacq++
					}
				}
			}
			if nacq > 0 {
				continue // acquired here as well: a local pairing, decided by REF-1
			}
			verdict, why := balanceWalkSeeded(c, f, all, p)
			switch verdict {
			case "ok":
				o.add(fn, construct, c.pos(f.Pos()), true, "the reference taken over from the caller: "+why)
			case "escapes":
				o.trivial(fn, construct, c.pos(f.Pos()), "handed on on every path ("+why+")")
			default:
				o.add(fn, construct, c.pos(f.Pos()), false, "the function consumes the caller's reference on "+p.Name()+" on some paths but: "+why)
			}
		}
	}
	return o.list
}

func refCountedType(t types.Type) bool {
	switch typeName(t) {
	case "segmentStack", "Footer", "mmapRef", "FileRef", "SnapshotWrapper", "Store":
		return typePkgPath(t) == mossPath
	}
	return false
}

// canon returns a canonical representative for "the same object" within a
// function: the SSA value, with field-load chains unified by access path.
func canonKey(v ssa.Value) string {
	for {
		switch x := v.(type) {
		case *ssa.MakeInterface:
			v = x.X
			continue
		case *ssa.ChangeInterface:
			v = x.X
			continue
		case *ssa.TypeAssert:
			v = x.X
			continue
		case *ssa.Extract:
			if ta, ok := x.Tuple.(*ssa.TypeAssert); ok && x.Index == 0 {
				v = ta.X
				continue
			}
		}
		break
	}
	if fv, base := loadedField(v); fv != nil {
		return canonKey(base) + "." + fv.Name()
	}
	if ld, ok := v.(*ssa.UnOp); ok && ld.Op == token.MUL {
		switch a := ld.X.(type) {
		case *ssa.Alloc:
			return fmt.Sprintf("cell:%s@%p", a.Comment, a)
		case *ssa.FreeVar:
			return "free:" + a.Name()
		}
	}
	switch x := v.(type) {
	case *ssa.Parameter:
		return "param:" + x.Name()
	case *ssa.FreeVar:
		return "free:" + x.Name()
	}
	return fmt.Sprintf("%s@%p", v.Name(), v)
}

func refEvents(c *Ctx, f *ssa.Function) []refEvent {
	var evs []refEvent
	eachInstr(f, func(i ssa.Instruction) {
		ci, ok := i.(ssa.CallInstruction)
		if !ok {
			return
		}
		cc := ci.Common()
		_, isDefer := i.(*ssa.Defer)
		_, isGo := i.(*ssa.Go)
		if isGo {
			return
		}
		sf := cc.StaticCallee()
		name := ""
		var recv ssa.Value
		if cc.IsInvoke() {
			name, recv = cc.Method.Name(), cc.Value
		} else if sf != nil && sf.Signature.Recv() != nil && len(cc.Args) > 0 {
			name, recv = sf.Name(), cc.Args[0]
		}
		// releases
		if releaseMethods[name] && recv != nil {
			kind := "rel"
			if isDefer {
				kind = "defer-rel"
			}
			evs = append(evs, refEvent{instr: i, tok: recv, kind: kind})
			return
		}
		// a private helper that releases one of its parameters on every path (`f.abandonIterator(iter)`: iter.Close();
		// f.DecRef()) is a release of the corresponding arguments
		if sf != nil && sf.Pkg == c.Moss && sf.Blocks != nil && !isExportedRoot(sf) && len(sf.Blocks) <= 6 {
			emitted := false
			for k, a := range cc.Args {
				if k < len(sf.Params) && refCountedType(a.Type()) && releasesParamAlways(sf, k) {
					kind := "rel"
					if isDefer {
						kind = "defer-rel"
					}
					evs = append(evs, refEvent{instr: i, tok: a, kind: kind})
					emitted = true
				}
			}
			if emitted {
				return
			}
		}
		if isDefer {
			return
		}
		call, isCall := i.(*ssa.Call)
		if !isCall {
			return
		}
		// acquisitions on the receiver
		if sf != nil && sf.Pkg == c.Moss && recv != nil && refCountedType(recv.Type()) {
			if acquireMethods[name] || c.fname(sf) == "(*Footer).segmentLocs" {
				tok := recv
				if acquireMethods[name] && sf.Signature.Results().Len() == 1 && types.Identical(sf.Signature.Results().At(0).Type(), recv.Type()) {
					if refs := call.Referrers(); refs != nil && len(*refs) > 0 {
						tok = call // w.addRef() returns w: the reference travels with the (used) result
					}
				}
				evs = append(evs, refEvent{instr: i, tok: tok, kind: "acq"})
				return
			}
		}
		// loading a footer's segments takes the mmap references that its DecRef releases
		if sf != nil && sf.Pkg == c.Moss && c.fname(sf) == "(*Footer).loadSegments" && recv != nil {
			evs = append(evs, refEvent{instr: i, tok: recv, kind: "acq", errCall: call})
			return
		}
		// acquisitions through the result
		if sf != nil && sf.Pkg == c.Moss {
			switch c.fname(sf) {
			case "(*Store).snapshot", "(*Store).Snapshot", "(*Store).startOrReuseFile", "(*Store).startFileLOCKED", "NewSnapshotWrapper":
				if tok := firstResult(call); tok != nil {
					ev := refEvent{instr: i, tok: tok, kind: "acq"}
					if errResultIndex(call.Call.Signature()) >= 0 {
						ev.errCall = call
					}
					evs = append(evs, ev)
				}
				return
			}
		}
		if name == "ChildCollectionSnapshot" {
			if tok := firstResult(call); tok != nil {
				evs = append(evs, refEvent{instr: i, tok: tok, kind: "acq"})
			}
		}
	})
	return evs
}

func firstResult(call *ssa.Call) ssa.Value {
	if call.Call.Signature().Results().Len() == 1 {
		return call
	}
	if refs := call.Referrers(); refs != nil {
		for _, r := range *refs {
			if e, ok := r.(*ssa.Extract); ok && e.Index == 0 {
				return e
			}
		}
	}
	return nil
}

// tokenEscapesAt: instruction i lets the tracked object escape.
// paramBorrowed: callee only borrows its idx-th parameter: it neither stores
// it, returns it, releases it, captures it nor passes it on to anything that does.
var borrowMemo = map[*ssa.Function]map[int]int{}

// pureExternals: library functions that only read through their arguments.
var pureExternals = map[string]bool{
	"encoding/json.Marshal": true, "fmt.Sprintf": true, "fmt.Errorf": true, "fmt.Printf": true, "fmt.Sprint": true,
	"encoding/json.MarshalIndent": true,
}

func paramBorrowed(callee *ssa.Function, idx int) bool {
	if callee != nil && callee.Pkg != nil && callee.Pkg.Pkg.Path() != mossPath {
		return pureExternals[callee.Pkg.Pkg.Path()+"."+callee.Name()]
	}
	if callee == nil || callee.Blocks == nil || callee.Pkg == nil || callee.Pkg.Pkg.Path() != mossPath || idx >= len(callee.Params) {
		return false
	}
	if borrowMemo[callee] == nil {
		borrowMemo[callee] = map[int]int{}
	}
	switch borrowMemo[callee][idx] {
	case 1, 3:
		return true
	case 2:
		return false
	}
	borrowMemo[callee][idx] = 3
	p := callee.Params[idx]
	ok := true
	seen := map[ssa.Value]bool{p: true}
	work := []ssa.Value{p}
	for len(work) > 0 && ok {
		v := work[len(work)-1]
		work = work[:len(work)-1]
		refs := v.Referrers()
		if refs == nil {
			continue
		}
		for _, r := range *refs {
			switch x := r.(type) {
			case *ssa.Phi, *ssa.MakeInterface, *ssa.ChangeInterface, *ssa.TypeAssert, *ssa.Extract:
				if val := x.(ssa.Value); !seen[val] {
					seen[val] = true
					work = append(work, val)
				}
			case *ssa.Return:
				ok = false
			case *ssa.Store:
				if x.Val == v {
					if a, isA := x.Addr.(*ssa.Alloc); isA && !a.Heap {
						// local variable: follow its loads
						if rr := a.Referrers(); rr != nil {
							for _, u := range *rr {
								if ld, isLd := u.(*ssa.UnOp); isLd && ld.Op == token.MUL && !seen[ld] {
									seen[ld] = true
									work = append(work, ld)
								}
							}
						}
					} else {
						ok = false
					}
				}
			case *ssa.MapUpdate, *ssa.Send, *ssa.MakeClosure:
				ok = false
			case ssa.CallInstruction:
				cc := x.Common()
				if _, isGo := x.(*ssa.Go); isGo {
					ok = false
					break
				}
				if recv, isRel := isReleaseCall(x); isRel && recv == v {
					ok = false
					break
				}
				for k, a := range cc.Args {
					if a != v {
						continue
					}
					sf := cc.StaticCallee()
					if k == 0 && sf != nil && sf.Signature.Recv() != nil {
						if !paramBorrowed(sf, 0) && sf.Pkg != nil && sf.Pkg.Pkg.Path() == mossPath {
							// a method that keeps its receiver (e.g. InitCloser) – treat as escape
							ok = false
						}
						continue
					}
					if !paramBorrowed(sf, k) {
						ok = false
					}
				}
				if cc.IsInvoke() && cc.Value == v {
					// interface method on the value: a borrow unless it is a release (handled above)
				}
			}
		}
	}
	if ok {
		borrowMemo[callee][idx] = 1
	} else {
		borrowMemo[callee][idx] = 2
	}
	return ok
}

func tokenEscapesAt(i ssa.Instruction, t0 *tracker, key string) (bool, string) {
	t := &tokenSet{t0, key}
	switch x := i.(type) {
	case *ssa.Return:
		for _, r := range x.Results {
			if t.has(r) {
				return true, "returned"
			}
		}
	case *ssa.Store:
		if t.has(x.Val) {
			if a, ok := x.Addr.(*ssa.Alloc); ok && !a.Heap {
				return false, ""
			}
			return true, "stored"
		}
	case *ssa.MapUpdate:
		if t.has(x.Value) {
			return true, "stored in map"
		}
	case *ssa.Send:
		if t.has(x.X) {
			return true, "sent"
		}
	case *ssa.MakeClosure:
		for _, b := range x.Bindings {
			if t.has(b) {
				return true, "captured"
			}
		}
	case ssa.CallInstruction:
		cc := x.Common()
		for k, a := range cc.Args {
			if !t.has(a) {
				continue
			}
			if k == 0 && !cc.IsInvoke() && cc.StaticCallee() != nil && cc.StaticCallee().Signature.Recv() != nil {
				continue // receiver: a borrow
			}
			if _, isGo := i.(*ssa.Go); !isGo && paramBorrowed(cc.StaticCallee(), k) {
				continue // the callee only reads through it
			}
			return true, "passed to " + calleeName(x)
		}
	}
	return false, ""
}

type tokenSet struct {
	t   *tracker
	key string
}

func (ts *tokenSet) has(v ssa.Value) bool {
	if ts.t.vals[v] {
		return true
	}
	if _, isConst := v.(*ssa.Const); isConst {
		return false
	}
	return canonKey(v) == ts.key
}

func ruleRef1(c *Ctx) []*Ob {
	o := newObs(c, "REF-1")
	for _, f := range c.Funcs {
		if strings.HasSuffix(c.Fset.Position(f.Pos()).Filename, "smat.go") {
			continue
		}
		fn := c.fname(f)
		evs := refEvents(c, f)
		// group by object
		groups := map[string][]refEvent{}
		var order []string
		for _, e := range evs {
			k := canonKey(e.tok)
			if _, ok := groups[k]; !ok {
				order = append(order, k)
			}
			groups[k] = append(groups[k], e)
		}
		sort.Strings(order)
		for _, k := range order {
			g := groups[k]
			nacq := 0
			var firstAcq refEvent
			for _, e := range g {
				if e.kind == "acq" {
					if nacq == 0 {
						firstAcq = e
					}
					nacq++
				}
			}
			if nacq == 0 {
				continue // released here but acquired elsewhere: REF-2 / ownership transfer
			}
			if strings.HasPrefix(k, "free:") {
				o.trivial(fn, "token "+accessPath(firstAcq.tok)+" ("+calleeShort(firstAcq.instr)+")", c.instrPos(firstAcq.instr),
					"the object lives in a variable captured from the enclosing function, which owns and releases the reference")
				continue
			}
			if refWrapper[f.Name()] {
				o.trivial(fn, "token "+accessPath(firstAcq.tok)+" ("+calleeShort(firstAcq.instr)+")", c.instrPos(firstAcq.instr),
					"the function is itself an acquire wrapper: it acquires on behalf of its caller")
				continue
			}
			verdict, why := balanceWalk(c, f, g)
			construct := "token " + accessPath(firstAcq.tok) + " (" + calleeShort(firstAcq.instr) + ")"
			switch verdict {
			case "ok":
				o.add(fn, construct, c.instrPos(firstAcq.instr), true, why)
			case "escapes":
				o.trivial(fn, construct, c.instrPos(firstAcq.instr), "ownership transfer on every path ("+why+"): the rule is silent")
			default:
				o.add(fn, construct, c.instrPos(firstAcq.instr), false, why)
			}
		}
	}
	return o.list
}

func calleeShort(i ssa.Instruction) string {
	if ci, ok := i.(ssa.CallInstruction); ok {
		if sf := ci.Common().StaticCallee(); sf != nil {
			return sf.Name()
		}
		if ci.Common().IsInvoke() {
			return ci.Common().Method.Name()
		}
	}
	return "?"
}

// balanceWalk explores every path of f from its entry, counting the
// acquisitions and releases of one object.
func balanceWalk(c *Ctx, f *ssa.Function, g []refEvent) (string, string) {
	return balanceWalkSeeded(c, f, g, nil)
}

// balanceWalkSeeded: with seed != nil the walk starts with one reference
// already held on seed (a parameter whose reference the function consumes).
func balanceWalkSeeded(c *Ctx, f *ssa.Function, g []refEvent, seed ssa.Value) (string, string) {
	evAt := map[ssa.Instruction]refEvent{}
	key := canonKey(g[0].tok)
	for _, e := range g {
		evAt[e.instr] = e
	}
	type state struct {
		b        *ssa.BasicBlock
		idx      int
		cnt      int // acquisitions - releases so far
		deferred int
		acquired bool
		t        *tracker
		// errTrack: tracker for the error result of the acquiring call
		et *tracker
		ec *ssa.Call
	}
	seen := map[string]bool{}
	var bad string
	balancedReturn, escapedSomewhere, anyReturn := false, "", false
	var work []state
	work = append(work, state{b: f.Blocks[0], t: newTracker(), et: newTracker()})
	// borrowCalls (seeded walk only): a call that receives the parameter and after which a release of the
	// parameter is still reachable did not take the reference over - the function itself says so on that path.
	borrowCalls := map[ssa.Instruction]bool{}
	if seed != nil {
		work[0].cnt, work[0].acquired = 1, true
		work[0].t.vals[seed] = true
		isRelOfSeed := func(i ssa.Instruction) bool {
			ci, ok := i.(ssa.CallInstruction)
			if !ok {
				return false
			}
			recv, isRel := isReleaseCall(ci)
			if !isRel {
				return false
			}
			for _, og := range origins(recv) {
				if og == seed {
					return true
				}
			}
			return false
		}
		eachInstr(f, func(i ssa.Instruction) {
			ci, ok := i.(ssa.CallInstruction)
			if !ok || isRelOfSeed(i) {
				return
			}
			if _, isGo := i.(*ssa.Go); isGo {
				return
			}
			passes := false
			for _, a := range ci.Common().Args {
				for _, og := range origins(a) {
					if og == seed {
						passes = true
					}
				}
			}
			if !passes {
				return
			}
			if _, ok := reachableFrom(i, isRelOfSeed, nil, nil); ok {
				borrowCalls[i] = true
			}
		})
	}
	steps := 0
	for len(work) > 0 && bad == "" {
		s := work[len(work)-1]
		work = work[:len(work)-1]
		k := fmt.Sprintf("%d|%d|%d|%d|%v|%s|%s", s.b.Index, s.idx, s.cnt, s.deferred, s.acquired, s.t.key(), s.et.key())
		if seen[k] {
			continue
		}
		seen[k] = true
		steps++
		if steps > 20000 {
			return "escapes", "path space too large: inconclusive by design"
		}
		stop := false
		for j := s.idx; j < len(s.b.Instrs) && !stop; j++ {
			ins := s.b.Instrs[j]
			if _, isPhi := ins.(*ssa.Phi); isPhi {
				continue
			}
			// aliases of the object: any value with the same canonical key
			if v, ok := ins.(ssa.Value); ok && s.acquired {
				if canonKey(v) == key {
					s.t.vals[v] = true
				}
			}
			if e, ok := evAt[ins]; ok && e.kind == "acq" {
				s.cnt++
				s.acquired = true
				s.t.vals[e.tok] = true
				if e.errCall != nil {
					s.ec = e.errCall
					s.et = newTracker()
					if e.errCall.Call.Signature().Results().Len() == 1 {
						s.et.vals[e.errCall] = true // the call's only result is the error
					}
				}
				s.t.step(ins, nil, 0)
				continue
			}
			if ci, isCI := ins.(ssa.CallInstruction); isCI && s.acquired {
				recv, isRel := isReleaseCall(ci)
				if !isRel {
					// a helper summarised as releasing this argument on all its paths (refEvents)
					if e, isEv := evAt[ins]; isEv && (e.kind == "rel" || e.kind == "defer-rel") {
						recv, isRel = e.tok, true
					}
				}
				if isRel && (&tokenSet{s.t, key}).has(recv) {
					if _, isDefer := ins.(*ssa.Defer); isDefer {
						s.deferred++
					} else if _, isGo := ins.(*ssa.Go); !isGo {
						s.cnt--
						if s.cnt-s.deferred < 0 {
							bad = fmt.Sprintf("released more often than acquired on a path (extra release at %s): the object is unmapped/closed while another holder still uses it", c.instrPos(ins))
						}
					}
					s.t.step(ins, nil, 0)
					continue
				}
			}
			if s.acquired && !borrowCalls[ins] {
				if esc, how := tokenEscapesAt(ins, s.t, key); esc {
					escapedSomewhere = how
					stop = true
					break
				}
			}
			if r, ok := ins.(*ssa.Return); ok {
				_ = r
				anyReturn = true
				if s.acquired {
					if s.cnt-s.deferred > 0 {
						bad = fmt.Sprintf("a path reaches the return at %s with %d acquisition(s) not released: the reference leaks (mapping/descriptor stays open, superseded files are never removed)", c.instrPos(ins), s.cnt-s.deferred)
					} else if s.cnt-s.deferred < 0 {
						bad = fmt.Sprintf("more releases than acquisitions on the path to the return at %s", c.instrPos(ins))
					} else {
						balancedReturn = true
					}
				}
				stop = true
				break
			}
			s.t.step(ins, nil, 0)
			if s.ec != nil {
				s.et.step(ins, s.ec, errResultIndex(s.ec.Call.Signature()))
			}
		}
		if stop || bad != "" {
			continue
		}
		var cond ssa.Value
		if iff, ok := s.b.Instrs[len(s.b.Instrs)-1].(*ssa.If); ok {
			cond = iff.Cond
		}
		for si, succ := range s.b.Succs {
			onTrue := si == 0
			if cond != nil && s.acquired {
				// the token == nil branch is exempt
				if isT, nilOnTrue := s.t.nilTest(cond); isT && nilOnTrue == onTrue {
					continue
				}
				// the failure branch of the acquiring call is exempt
				if s.ec != nil {
					if isT, nilOnTrue := s.et.nilTest(cond); isT && nilOnTrue != onTrue {
						continue
					}
				}
			}
			nt := s.t.clone()
			nt.enter(s.b, succ)
			ne := s.et.clone()
			ne.enter(s.b, succ)
			work = append(work, state{b: succ, cnt: s.cnt, deferred: s.deferred, acquired: s.acquired, t: nt, et: ne, ec: s.ec})
		}
	}
	if bad != "" {
		return "violated", bad
	}
	if balancedReturn {
		return "ok", "every path to a return releases exactly what it acquired (or hands the token on)"
	}
	if escapedSomewhere != "" {
		return "escapes", escapedSomewhere
	}
	if !anyReturn {
		return "ok", "no return reachable after the acquisition"
	}
	return "ok", "balanced"
}

// ---------------------------------------------------------------- REF-2

type owningField struct{ typ, field string }

var owningFields = []owningField{
	{"collection", "stackDirtyTop"}, {"collection", "stackDirtyMid"}, {"collection", "stackDirtyBase"}, {"collection", "stackClean"},
	{"collection", "lowerLevelSnapshot"}, {"collection", "latestSnapshot"}, {"Store", "footer"}, {"segmentStack", "lowerLevelSnapshot"},
}

func ruleRef2(c *Ctx) []*Ob {
	o := newObs(c, "REF-2")
	own := map[*types.Var]bool{}
	for _, of := range owningFields {
		own[c.Field(of.typ, of.field)] = true
	}
	except := map[string]string{
		"(*collection).Snapshot|latestSnapshot": "reached only when reuseSnapshot(m.latestSnapshot) returned nil: the cache is empty",
	}
	for _, f := range c.Funcs {
		if strings.HasSuffix(c.Fset.Position(f.Pos()).Filename, "smat.go") {
			continue
		}
		fn := c.fname(f)
		for _, a := range fieldAccesses(f, func(v *types.Var) bool { return own[v] }) {
			if a.Kind != "store" || isFreshAlloc(a.Base) {
				continue
			}
			// fresh via builder (e.g. rv.lowerLevelSnapshot in snapshot()/merge())
			if newBuilderAnalysis(c).isBuilder(a.Base, 0) {
				continue
			}
			construct := "store " + typeName(a.Base.Type()) + "." + a.Field.Name()
			if why, ok := except[fn+"|"+a.Field.Name()]; ok {
				o.trivial(fn, construct, c.instrPos(a.Instr), "table exception: "+why)
				continue
			}
			// guarded by field == nil
			if mustPrecede(f, a.Instr, neverInstr, nilFieldEdge(a.Field, true)) {
				o.add(fn, construct, c.instrPos(a.Instr), true, "the store only happens when the field was nil: there is no old value to release")
				continue
			}
			// loads of the same field in this function
			handled, how := oldValueHandled(c, f, a, own)
			if !handled && f.Parent() != nil {
				// callback closure: the old value may be parked in a captured variable and released by the parent
				handled, how = oldValueParkedForParent(c, f, a)
			}
			if handled {
				o.add(fn, construct, c.instrPos(a.Instr), true, how)
			} else {
				o.add(fn, construct, c.instrPos(a.Instr), false,
					"the field's previous value is overwritten without being released or handed on: the reference it held leaks (segments, mappings and the data file they pin stay alive)")
			}
		}
	}
	return o.list
}

// oldValueHandled: some load of the same field in f flows into a release
// call or into a store to another owning field.
func oldValueHandled(c *Ctx, f *ssa.Function, st access, own map[*types.Var]bool) (bool, string) {
	baseKey := canonKey(st.Base)
	var loads []ssa.Value
	for _, a := range fieldAccesses(f, func(v *types.Var) bool { return v == st.Field }) {
		if a.Kind == "load" && canonKey(a.Base) == baseKey {
			if v, ok := a.Instr.(ssa.Value); ok {
				loads = append(loads, v)
			}
		}
	}
	if len(loads) == 0 {
		return false, ""
	}
	// which loads are handled: their value flows into a release, another owning field or a return
	handled := map[ssa.Value]string{}
	for _, l := range loads {
		l := l
		isOld := func(v ssa.Value) bool {
			return backSlice(v, func(w ssa.Value) bool { return w == l })
		}
		eachInstr(f, func(i ssa.Instruction) {
			if handled[l] != "" {
				return
			}
			switch x := i.(type) {
			case ssa.CallInstruction:
				if recv, ok := isReleaseCall(x); ok && isOld(recv) {
					handled[l] = "the old value is released (" + calleeShort(i) + " at " + c.instrPos(i) + ")"
				}
			case *ssa.Store:
				if x == st.Instr {
					return
				}
				if fv, _ := asFieldAddr(x.Addr); fv != nil && own[fv] && fv != st.Field && isOld(x.Val) {
					handled[l] = "the old value is moved into " + fv.Name() + " (transfer)"
				}
			case *ssa.Return:
				for _, rv := range x.Results {
					if isOld(rv) && !isExportedRoot(f) {
						handled[l] = "the old value is returned to the caller, which takes over the reference"
					}
				}
			}
		})
	}
	if len(handled) == 0 {
		return false, ""
	}
	// forward must-analysis: on every path to the store, a handled load of the field happened since the
	// field was last written (the old value was picked up before it is overwritten).
	isFieldStore := func(i ssa.Instruction) bool {
		sx, ok := i.(*ssa.Store)
		if !ok {
			return false
		}
		fv, base := asFieldAddr(sx.Addr)
		return fv == st.Field && canonKey(base) == baseKey
	}
	out := map[*ssa.BasicBlock]bool{}
	for _, b := range f.Blocks {
		out[b] = true
	}
	atStore, how := true, ""
	transfer := func(b *ssa.BasicBlock, in bool, record bool) bool {
		cur := in
		for _, i := range b.Instrs {
			if v, ok := i.(ssa.Value); ok && handled[v] != "" {
				cur = true
				if how == "" {
					how = handled[v]
				}
			}
			if isFieldStore(i) {
				if record && i == st.Instr {
					atStore = cur
				}
				cur = false
			}
		}
		return cur
	}
	for changed := true; changed; {
		changed = false
		for _, b := range f.Blocks {
			in := len(b.Preds) > 0
			for _, p := range b.Preds {
				in = in && out[p]
			}
			if o := transfer(b, in, false); o != out[b] {
				out[b], changed = o, true
			}
		}
	}
	for _, b := range f.Blocks {
		in := len(b.Preds) > 0
		for _, p := range b.Preds {
			in = in && out[p]
		}
		transfer(b, in, true)
	}
	if !atStore {
		return false, ""
	}
	for _, h := range handled {
		if how == "" {
			how = h
		}
	}
	return true, how + " on every path to the store"
}

// oldValueParkedForParent: inside a callback closure the old value is stored
// into a variable captured from the parent, and the parent releases that variable.
func oldValueParkedForParent(c *Ctx, f *ssa.Function, st access) (bool, string) {
	baseKey := canonKey(st.Base)
	ok, how := false, ""
	eachInstr(f, func(i ssa.Instruction) {
		s, isSt := i.(*ssa.Store)
		if !isSt || ok {
			return
		}
		fvv, isFV := s.Addr.(*ssa.FreeVar)
		if !isFV {
			return
		}
		fv, base := loadedField(s.Val)
		if fv != st.Field || canonKey(base) != baseKey {
			return
		}
		// parent releases a load of the captured cell
		parent := f.Parent()
		idx := -1
		for k, v := range f.FreeVars {
			if v == fvv {
				idx = k
			}
		}
		var cell ssa.Value
		eachInstr(parent, func(j ssa.Instruction) {
			if mc, isMC := j.(*ssa.MakeClosure); isMC && mc.Fn == f && idx >= 0 && idx < len(mc.Bindings) {
				cell = mc.Bindings[idx]
			}
		})
		if cell == nil {
			return
		}
		eachInstr(parent, func(j ssa.Instruction) {
			if ci, isCI := j.(ssa.CallInstruction); isCI {
				if recv, isRel := isReleaseCall(ci); isRel {
					if ld, isLd := recv.(*ssa.UnOp); isLd && ld.Op == token.MUL && ld.X == cell {
						ok, how = true, "the old value is parked in the captured variable "+fvv.Name()+" and released by "+c.fname(parent)+" at "+c.instrPos(j)
					}
				}
			}
		})
	})
	return ok, how
}

func init() {
	register(&Rule{
		ID: "REF-13",
		Doc: "Release and clear go together: a Close/DecRef/decRef of the value held by an owning field (Store.footer, collection.stackDirty*/stackClean/lowerLevelSnapshot/latestSnapshot, " +
			"segmentStack.lowerLevelSnapshot) that the function did not itself acquire gives up the field's own reference, so on every path through the release the field is overwritten " +
			"(cleared or replaced) - before the release after the value was picked up, or after it before the function returns. A field that still points at the released object lets a second " +
			"Close release a reference that belongs to someone else (an open snapshot loses its data).",
		Props: []string{"C02", "C15", "C16"},
		Floor: 3,
		Run:   ruleRef13,
	})
}

func ruleRef13(c *Ctx) []*Ob {
	o := newObs(c, "REF-13")
	own := map[*types.Var]bool{}
	for _, of := range owningFields {
		own[c.Field(of.typ, of.field)] = true
	}
	for _, f := range c.Funcs {
		if c.isHarness(f) {
			continue
		}
		fn := c.fname(f)
		evs := refEvents(c, f)
		acquired := map[string]bool{}
		for _, e := range evs {
			if e.kind == "acq" {
				acquired[canonKey(e.tok)] = true
			}
		}
		for _, e := range evs {
			if e.kind != "rel" && e.kind != "defer-rel" {
				continue
			}
			if acquired[canonKey(e.tok)] {
				continue
			}
			// the released value is what an owning field holds
			var fld *types.Var
			var base ssa.Value
			for _, og := range origins(e.tok) {
				if fv, b := loadedField(og); fv != nil && own[fv] && b != nil && !isFreshAlloc(b) {
					fld, base = fv, b
				}
			}
			if fld == nil {
				continue
			}
			// the receiver is a release method of the owner itself (segmentStack.decRef releasing its own lowerLevelSnapshot when refs hit zero)
			isStoreF := func(i ssa.Instruction) bool {
				st, ok := i.(*ssa.Store)
				if !ok {
					return false
				}
				fv, b := asFieldAddr(st.Addr)
				return fv == fld && b != nil && canonKey(b) == canonKey(base)
			}
			before := false
			// a store to the field between the pick-up and the release, on every path
			before = mustPrecede(f, e.instr, isStoreF, nil)
			after := true
			walk(after2(e.instr), walkOpts{noInline: true, visit: func(i ssa.Instruction, t *tracker) bool {
				if isStoreF(i) {
					return true
				}
				if _, isRet := i.(*ssa.Return); isRet {
					after = false
					return true
				}
				return false
			}})
			ok := before || after
			why := "the field is overwritten on every path through the release"
			if !ok {
				why = "the value of " + fld.Name() + " is released but the field keeps pointing at it on some path: the next Close / replacement releases the same object again - a reference that belongs to an open snapshot or to the next owner"
			}
			o.add(fn, "release of "+typeName(base.Type())+"."+fld.Name(), c.instrPos(e.instr), ok, why)
		}
	}
	return o.list
}

func after2(i ssa.Instruction) point {
	if _, isDefer := i.(*ssa.Defer); isDefer {
		return after(i)
	}
	return after(i)
}

var relParamMemo = map[*ssa.Function]map[int]bool{}

// releasesParamAlways: every path of the (small, private) helper h releases its k-th parameter.
func releasesParamAlways(h *ssa.Function, k int) bool {
	if m, ok := relParamMemo[h]; ok {
		if v, ok2 := m[k]; ok2 {
			return v
		}
	} else {
		relParamMemo[h] = map[int]bool{}
	}
	relParamMemo[h][k] = false
	p := h.Params[k]
	var rels []ssa.Instruction
	eachInstr(h, func(i ssa.Instruction) {
		call, ok := i.(*ssa.Call)
		if !ok {
			return
		}
		cc := call.Common()
		name := ""
		var recv ssa.Value
		if cc.IsInvoke() {
			name, recv = cc.Method.Name(), cc.Value
		} else if sf := cc.StaticCallee(); sf != nil && sf.Signature.Recv() != nil && len(cc.Args) > 0 {
			name, recv = sf.Name(), cc.Args[0]
		}
		if !releaseMethods[name] || recv == nil {
			return
		}
		for _, og := range origins(recv) {
			if og == ssa.Value(p) {
				rels = append(rels, i)
			}
		}
	})
	if len(rels) == 0 {
		return false
	}
	all := true
	eachInstr(h, func(i ssa.Instruction) {
		if r, isR := i.(*ssa.Return); isR && all {
			if !mustPrecede(h, r, func(j ssa.Instruction) bool {
				for _, x := range rels {
					if j == x {
						return true
					}
				}
				return false
			}, nil) {
				all = false
			}
		}
	})
	relParamMemo[h][k] = all
	return all
}
