package main

// R-ERR: errors of the write path are never dropped (C06, C13).

import (
	"go/token"
	"go/types"
	"sort"
	"strings"

	"golang.org/x/tools/go/ssa"
)

func init() {
	register(&Rule{
		ID: "R-ERR",
		Doc: "Write-path universe W = the primitives File.WriteAt/Sync/Truncate, io.WriterAt.WriteAt, every moss function with an error result from which " +
			"the call graph (closures and goroutine bodies included) reaches a primitive, the three bufferedSectionWriter methods that reach one through a channel hop, and calls of the " +
			"CollectionOptions.LowerLevelUpdate function value. At every call site of a member of W the error result must escape: returned, sent on a channel, " +
			"stored in a field/global/captured variable, or passed to a non-logging callee (OnError, fmt.Errorf whose result is followed). " +
			"An error that is only compared, only logged, or discarded is a violation.",
		Props: []string{"C06", "C13"},
		Floor: 27,
		Run:   ruleErr,
		Exceptions: []string{
			"(*Store).writeSegments$1 -> (*bufferedSectionWriter).Stop (x2): the onError closure runs when an error is already being returned; the first error wins",
		},
	})
	register(&Rule{
		ID: "R-ERR-2",
		Doc: "Result pairing of the asynchronous section writer: in (*bufferedSectionWriter).Stop, on every path on which b.err is nil, a receive from b.resCh " +
			"(the result of the last write request) precedes close(b.stopCh), and the err field of the received ioBuf is stored into b.err. " +
			"In the writer goroutine the error sent back on resCh must originate from the WriteAt call.",
		Props: []string{"C06"},
		Floor: 1,
		Run:   ruleErr2,
	})
}

func init() {
	register(&Rule{
		ID: "ERR-3",
		Doc: "Short writes are failures (the property's fault model lists them): for every File.WriteAt / io.WriterAt.WriteAt call the returned byte count is compared with the requested " +
			"length – directly in the function, or after being stored into a struct field that is compared with the wanted length where the result is collected (ioResult.got vs want). " +
			"Exception: the zero padding write after the footer on platforms whose allocation granularity differs from the page size (its only purpose is to extend the file for mmap).",
		Props:      []string{"C06"},
		Floor:      3,
		Run:        ruleErr3,
		Exceptions: []string{"(*Store).persistFooterUnsynced: padding write under AllocationGranularity != StorePageSize – a short padding only makes a later mmap fail with an error"},
	})
}

func ruleErr3(c *Ctx) []*Ob {
	o := newObs(c, "ERR-3")
	// struct fields compared somewhere with ==/!=/< against another value
	comparedFields := map[*types.Var]bool{}
	for _, f := range c.Funcs {
		eachInstr(f, func(i ssa.Instruction) {
			b, ok := i.(*ssa.BinOp)
			if !ok {
				return
			}
			switch b.Op {
			case token.EQL, token.NEQ, token.LSS, token.GTR, token.LEQ, token.GEQ:
			default:
				return
			}
			for _, opnd := range []ssa.Value{b.X, b.Y} {
				if fv, _ := loadedField(opnd); fv != nil {
					comparedFields[fv] = true
				}
			}
		})
	}
	for _, f := range c.Funcs {
		fn := c.fname(f)
		nth := 0
		eachInstr(f, func(i ssa.Instruction) {
			call, ok := i.(*ssa.Call)
			if !ok {
				return
			}
			p, isP := writePrimitive(call)
			if !isP || !(p == "File.WriteAt" || p == "io.WriterAt.WriteAt" || p == "os.File.WriteAt") {
				return
			}
			nth++
			var n ssa.Value
			if refs := call.Referrers(); refs != nil {
				for _, r := range *refs {
					if e, ok := r.(*ssa.Extract); ok && e.Index == 0 {
						n = e
					}
				}
			}
			construct := "byte count of " + p + " is checked"
			unused := n == nil
			if n != nil {
				if rf := n.Referrers(); rf == nil || len(*rf) == 0 {
					unused = true
				}
			}
			if fn == "(*Store).persistFooterUnsynced" && unused {
				// the padding write
				if b := call.Block(); b != nil {
					o.trivial(fn, construct+" (padding)", c.instrPos(call), "table exception: zero padding for mmap granularity")
					return
				}
			}
			checked := false
			if n != nil {
				seen := map[ssa.Value]bool{n: true}
				work := []ssa.Value{n}
				for len(work) > 0 && !checked {
					v := work[len(work)-1]
					work = work[:len(work)-1]
					refs := v.Referrers()
					if refs == nil {
						continue
					}
					for _, r := range *refs {
						switch x := r.(type) {
						case *ssa.BinOp:
							switch x.Op {
							case token.EQL, token.NEQ, token.LSS, token.GTR, token.LEQ, token.GEQ:
								checked = true
							}
						case *ssa.Phi, *ssa.Convert, *ssa.ChangeType:
							if val := x.(ssa.Value); !seen[val] {
								seen[val] = true
								work = append(work, val)
							}
						case *ssa.Store:
							if x.Val != v {
								continue
							}
							switch a := x.Addr.(type) {
							case *ssa.FieldAddr:
								if fv := fieldAddrVar(a); fv != nil && comparedFields[fv] {
									checked = true
								}
							case *ssa.Alloc:
								if rr := a.Referrers(); rr != nil {
									for _, u := range *rr {
										if ld, isLd := u.(*ssa.UnOp); isLd && ld.Op == token.MUL && !seen[ld] {
											seen[ld] = true
											work = append(work, ld)
										}
									}
								}
							case *ssa.FreeVar:
								// captured variable: loads in this function
								if rr := a.Referrers(); rr != nil {
									for _, u := range *rr {
										if ld, isLd := u.(*ssa.UnOp); isLd && ld.Op == token.MUL && !seen[ld] {
											seen[ld] = true
											work = append(work, ld)
										}
									}
								}
							}
						}
					}
				}
			}
			why := "the count is compared with the length that was to be written"
			if !checked {
				why = "the byte count returned by " + p + " is never compared with the requested length: a short write that reports no error leaves a partly written region and the operation reports success"
			}
			o.add(fn, construct, c.instrPos(call), checked, why)
		})
	}
	return o.list
}

// writePrimitive tells whether ci is a call of one of the I/O primitives.
func writePrimitive(ci ssa.CallInstruction) (string, bool) {
	cc := ci.Common()
	if cc.IsInvoke() {
		tn := typeName(cc.Value.Type())
		tp := typePkgPath(cc.Value.Type())
		m := cc.Method.Name()
		if tn == "File" && tp == mossPath && (m == "WriteAt" || m == "Sync" || m == "Truncate") {
			return "File." + m, true
		}
		if tn == "WriterAt" && tp == "io" && m == "WriteAt" {
			return "io.WriterAt.WriteAt", true
		}
		return "", false
	}
	if f := cc.StaticCallee(); f != nil && f.Signature.Recv() != nil {
		if typeName(f.Signature.Recv().Type()) == "File" && typePkgPath(f.Signature.Recv().Type()) == "os" {
			switch f.Name() {
			case "WriteAt", "Write", "Sync", "Truncate", "WriteString":
				return "os.File." + f.Name(), true
			}
		}
	}
	return "", false
}

// isLowerLevelUpdateCall: a dynamic call of the CollectionOptions.LowerLevelUpdate field.
func isFieldFuncCall(ci ssa.CallInstruction, typ, field string) bool {
	cc := ci.Common()
	if cc.IsInvoke() || cc.StaticCallee() != nil {
		return false
	}
	fv, _ := loadedField(cc.Value)
	if fv == nil || fv.Name() != field {
		return false
	}
	return true
}

// writeUniverse computes the moss functions of W.
func writeUniverse(c *Ctx) map[*ssa.Function]bool {
	W := map[*ssa.Function]bool{}
	for _, n := range []string{"(*bufferedSectionWriter).Write", "(*bufferedSectionWriter).Flush", "(*bufferedSectionWriter).Stop"} {
		W[c.Fn(n)] = true
	}
	// reaches[f]: f (or a closure of f) contains a call to a primitive or a W member.
	var containsWriteCall func(f *ssa.Function, W map[*ssa.Function]bool) bool
	containsWriteCall = func(f *ssa.Function, W map[*ssa.Function]bool) bool {
		found := false
		eachInstr(f, func(i ssa.Instruction) {
			ci, ok := i.(ssa.CallInstruction)
			if !ok || found {
				return
			}
			if _, p := writePrimitive(ci); p {
				found = true
				return
			}
			if isFieldFuncCall(ci, "CollectionOptions", "LowerLevelUpdate") {
				found = true
				return
			}
			for _, cal := range c.Callees(ci) {
				if W[cal] {
					found = true
					return
				}
			}
		})
		if found {
			return true
		}
		for _, a := range f.AnonFuncs {
			if containsWriteCall(a, W) {
				return true
			}
		}
		return false
	}
	for changed := true; changed; {
		changed = false
		for _, f := range c.Funcs {
			if W[f] || errResultIndex(f.Signature) < 0 {
				continue
			}
			if containsWriteCall(f, W) {
				W[f] = true
				changed = true
			}
		}
	}
	return W
}

// errFate classifies what happens to an error value.
type errFate struct {
	escapes bool
	how     string
}

var loggingCallees = map[string]bool{
	"(*collection).Logf": true,
}

// errEscapes follows an error value forward through the function (and into
// closures through captured cells) and reports whether it escapes.
func errEscapes(c *Ctx, start ssa.Value) errFate {
	seen := map[ssa.Value]bool{}
	work := []ssa.Value{start}
	fate := errFate{}
	push := func(v ssa.Value) {
		if v != nil && !seen[v] {
			seen[v] = true
			work = append(work, v)
		}
	}
	seen[start] = true
	// containers: allocs (cells, arrays for varargs, struct temporaries) that hold the value
	followCell := func(cell ssa.Value) {
		refs := cell.Referrers()
		if refs == nil {
			return
		}
		for _, r := range *refs {
			switch r := r.(type) {
			case *ssa.UnOp:
				if r.Op == token.MUL {
					push(r)
				}
			case *ssa.Slice:
				push(r)
			case *ssa.MakeClosure:
				for k, b := range r.Bindings {
					if b == cell {
						cf := r.Fn.(*ssa.Function)
						if k < len(cf.FreeVars) {
							push(cf.FreeVars[k])
						}
					}
				}
			case *ssa.FieldAddr, *ssa.IndexAddr:
				// reading parts of the container
				if v, ok := r.(ssa.Value); ok {
					if rr := v.Referrers(); rr != nil {
						for _, u := range *rr {
							if ld, ok := u.(*ssa.UnOp); ok && ld.Op == token.MUL {
								push(ld)
							}
						}
					}
				}
			}
		}
	}
	for len(work) > 0 && !fate.escapes {
		v := work[len(work)-1]
		work = work[:len(work)-1]
		if fvv, ok := v.(*ssa.FreeVar); ok {
			// a captured cell: loads of it carry the value
			followCell(fvv)
			continue
		}
		refs := v.Referrers()
		if refs == nil {
			continue
		}
		for _, r := range *refs {
			if fate.escapes {
				break
			}
			switch r := r.(type) {
			case *ssa.Return:
				fate = errFate{true, "returned"}
			case *ssa.Send:
				if r.X == v {
					fate = errFate{true, "sent on channel"}
				}
			case *ssa.Select:
				for _, st := range r.States {
					if st.Dir == types.SendOnly && st.Send == v {
						fate = errFate{true, "sent on channel (select)"}
					}
				}
			case *ssa.Phi, *ssa.MakeInterface, *ssa.ChangeInterface, *ssa.ChangeType, *ssa.Convert:
				push(r.(ssa.Value))
			case *ssa.TypeAssert:
				push(r)
			case *ssa.Extract:
				push(r)
			case *ssa.Field:
				push(r)
			case *ssa.Store:
				if r.Val != v {
					continue
				}
				switch a := r.Addr.(type) {
				case *ssa.Alloc:
					followCell(a)
				case *ssa.FreeVar:
					// stored into a variable captured from the enclosing function: visible there
					fate = errFate{true, "stored in captured variable " + a.Name()}
				case *ssa.FieldAddr:
					if base, ok := a.X.(*ssa.Alloc); ok {
						followCell(base) // struct temporary: follow whole-value loads
					} else {
						fate = errFate{true, "stored in field " + accessPath(a)}
					}
				case *ssa.IndexAddr:
					if base, ok := a.X.(*ssa.Alloc); ok {
						followCell(base) // varargs array
					} else {
						fate = errFate{true, "stored in element"}
					}
				case *ssa.Global:
					fate = errFate{true, "stored in global"}
				default:
					fate = errFate{true, "stored"}
				}
			case *ssa.MapUpdate:
				fate = errFate{true, "stored in map"}
			case *ssa.MakeClosure:
				// bound by value (rare)
				fate = errFate{true, "captured"}
			case ssa.CallInstruction:
				cc := r.Common()
				isArg := false
				for _, a := range cc.Args {
					if a == v {
						isArg = true
					}
				}
				if !isArg {
					continue
				}
				if f := cc.StaticCallee(); f != nil {
					if f.Pkg == c.Moss && loggingCallees[c.fname(f)] {
						continue
					}
					if isStaticCall(r, "fmt", "Errorf") {
						if val, ok := r.(*ssa.Call); ok {
							push(val) // wrapped: follow the new error
						}
						continue
					}
					if isStaticCall(r, "fmt", "Sprintf") || isStaticCall(r, "fmt", "Printf") || isStaticCall(r, "fmt", "Println") {
						continue
					}
					fate = errFate{true, "passed to " + f.Name()}
					continue
				}
				if fv, _ := loadedField(cc.Value); fv != nil && fv.Name() == "Log" {
					continue // the Log callback of the options: logging only
				}
				fate = errFate{true, "passed to " + calleeName(r)}
			}
		}
	}
	return fate
}

func ruleErr(c *Ctx) []*Ob {
	o := newObs(c, "R-ERR")
	W := writeUniverse(c)
	except := map[string]bool{
		"(*Store).writeSegments$1|(*bufferedSectionWriter).Stop": true,
	}
	for _, f := range c.Funcs {
		fn := c.fname(f)
		var sites []ssa.CallInstruction
		eachInstr(f, func(i ssa.Instruction) {
			if ci, ok := i.(ssa.CallInstruction); ok {
				sites = append(sites, ci)
			}
		})
		sort.SliceStable(sites, func(i, j int) bool { return sites[i].Pos() < sites[j].Pos() })
		for _, ci := range sites {
			name := ""
			if p, ok := writePrimitive(ci); ok {
				name = p
			} else if isFieldFuncCall(ci, "CollectionOptions", "LowerLevelUpdate") {
				name = "CollectionOptions.LowerLevelUpdate"
			} else {
				for _, cal := range c.Callees(ci) {
					if W[cal] {
						name = c.fname(cal)
						break
					}
				}
			}
			if name == "" {
				continue
			}
			construct := "call " + name
			call, isCall := ci.(*ssa.Call)
			if !isCall {
				kind := "defer"
				if _, g := ci.(*ssa.Go); g {
					kind = "go"
				}
				o.add(fn, construct+" ("+kind+")", c.instrPos(ci), false,
					"the call is a "+kind+" statement: its error result is discarded")
				continue
			}
			if errResultIndex(call.Call.Signature()) < 0 {
				continue
			}
			evs := errValues(call)
			if len(evs) == 0 {
				if except[fn+"|"+name] || (strings.HasSuffix(name, ".Stop") && isErrorPathCleanup(f)) {
					o.add(fn, construct, c.instrPos(ci), true, "table exception: error path clean-up, first error wins").Trivial = true
					continue
				}
				o.add(fn, construct, c.instrPos(ci), false, "the error result is discarded (never extracted)")
				continue
			}
			fate := errFate{}
			for _, ev := range evs {
				if ft := errEscapes(c, ev); ft.escapes {
					fate = ft
					break
				}
			}
			if fate.escapes {
				o.add(fn, construct, c.instrPos(ci), true, "error "+fate.how)
			} else if except[fn+"|"+name] || (strings.HasSuffix(name, ".Stop") && isErrorPathCleanup(f)) {
				o.add(fn, construct, c.instrPos(ci), true, "table exception: error path clean-up, first error wins").Trivial = true
			} else {
				o.add(fn, construct, c.instrPos(ci), false,
					"the error result is only compared, logged or dropped: it never reaches a return, a channel, a field or OnError")
			}
		}
	}
	return o.list
}

// ---------------------------------------------------------------- R-ERR-2

func ruleErr2(c *Ctx) []*Ob {
	o := newObs(c, "R-ERR-2")
	stop := c.Fn("(*bufferedSectionWriter).Stop")
	fStopCh := c.Field("bufferedSectionWriter", "stopCh")
	fResCh := c.Field("bufferedSectionWriter", "resCh")
	fErr := c.Field("bufferedSectionWriter", "err")
	fIoErr := c.Field("ioBuf", "err")
	fn := c.fname(stop)

	// (1) receive from b.resCh precedes close(b.stopCh) on every b.err == nil path.
	var closes []ssa.Instruction
	eachInstr(stop, func(i ssa.Instruction) {
		if call, ok := i.(*ssa.Call); ok {
			if b, ok := call.Call.Value.(*ssa.Builtin); ok && b.Name() == "close" && len(call.Call.Args) == 1 {
				if fv, _ := loadedField(call.Call.Args[0]); fv == fStopCh {
					closes = append(closes, i)
				}
			}
		}
	})
	isRecv := func(i ssa.Instruction) bool {
		u, ok := i.(*ssa.UnOp)
		if !ok || u.Op != token.ARROW {
			return false
		}
		fv, _ := loadedField(u.X)
		return fv == fResCh
	}
	errNonNilEdge := func(from, to *ssa.BasicBlock, cond ssa.Value, onTrue bool) bool {
		b, ok := cond.(*ssa.BinOp)
		if !ok || (b.Op != token.EQL && b.Op != token.NEQ) {
			return false
		}
		var x ssa.Value
		if isNilConst(b.Y) {
			x = b.X
		} else if isNilConst(b.X) {
			x = b.Y
		} else {
			return false
		}
		if fv, _ := loadedField(x); fv != fErr {
			return false
		}
		nonNilOnTrue := b.Op == token.NEQ
		return nonNilOnTrue == onTrue
	}
	if len(closes) == 0 {
		o.add(fn, "close(b.stopCh)", c.pos(stop.Pos()), false, "Stop no longer closes stopCh: anchor of the pairing rule lost")
	}
	for _, cl := range closes {
		ok := mustPrecede(stop, cl, isRecv, errNonNilEdge)
		why := "every path with b.err == nil receives from b.resCh before close(b.stopCh)"
		if !ok {
			why = "a path with b.err == nil reaches close(b.stopCh) without receiving the result of the last write from b.resCh: that write's error is lost"
		}
		o.add(fn, "recv b.resCh before close(b.stopCh)", c.instrPos(cl), ok, why)
	}
	// (2) the received ioBuf's err is stored into b.err
	stored := false
	var pos string = c.pos(stop.Pos())
	eachInstr(stop, func(i ssa.Instruction) {
		st, ok := i.(*ssa.Store)
		if !ok {
			return
		}
		if fv, _ := asFieldAddr(st.Addr); fv != fErr {
			return
		}
		if fv, _ := loadedField(st.Val); fv != fIoErr {
			return
		}
		if backSlice(st.Val, func(v ssa.Value) bool {
			u, ok := v.(*ssa.UnOp)
			if !ok || u.Op != token.ARROW {
				return false
			}
			fv, _ := loadedField(u.X)
			return fv == fResCh
		}) {
			stored = true
			pos = c.instrPos(st)
		}
	})
	why := "b.err receives the err field of the ioBuf read from b.resCh"
	if !stored {
		why = "no store to b.err takes the err field of the ioBuf received from b.resCh"
	}
	o.add(fn, "b.err = (<-b.resCh).err", pos, stored, why)

	// (3) writer goroutine: the err sent on resCh originates from the WriteAt call
	nb := c.Fn("newBufferedSectionWriter")
	for _, g := range nb.AnonFuncs {
		gn := c.fname(g)
		var sends []ssa.Instruction
		eachInstr(g, func(i ssa.Instruction) {
			switch i := i.(type) {
			case *ssa.Send:
				sends = append(sends, i)
			case *ssa.Select:
				for _, st := range i.States {
					if st.Dir == types.SendOnly {
						sends = append(sends, i)
					}
				}
			}
		})
		if len(sends) == 0 {
			continue
		}
		// find WriteAt calls and check their error reaches a send
		for _, ci := range callsIn(g, func(ci ssa.CallInstruction) bool { _, p := writePrimitive(ci); return p }) {
			call, ok := ci.(*ssa.Call)
			if !ok {
				continue
			}
			reaches := false
			for _, ev := range errValues(call) {
				if valueReachesSend(ev) {
					reaches = true
				}
			}
			why := "the WriteAt error flows into the ioBuf sent on resCh"
			if !reaches {
				why = "the WriteAt error never flows into the value sent on resCh (e.g. shadowed by :=): asynchronous write errors are dropped"
			}
			o.add(gn, "WriteAt error -> resCh", c.instrPos(ci), reaches, why)
		}
	}
	return o.list
}

// valueReachesSend: forward flow of v into a channel send (plain Send or a
// Select send state), through phis, cells and struct temporaries.
func valueReachesSend(start ssa.Value) bool {
	seen := map[ssa.Value]bool{start: true}
	work := []ssa.Value{start}
	push := func(v ssa.Value) {
		if v != nil && !seen[v] {
			seen[v] = true
			work = append(work, v)
		}
	}
	followCell := func(cell ssa.Value) {
		if refs := cell.Referrers(); refs != nil {
			for _, r := range *refs {
				if ld, ok := r.(*ssa.UnOp); ok && ld.Op == token.MUL {
					push(ld)
				}
			}
		}
	}
	for len(work) > 0 {
		v := work[len(work)-1]
		work = work[:len(work)-1]
		refs := v.Referrers()
		if refs == nil {
			continue
		}
		for _, r := range *refs {
			switch r := r.(type) {
			case *ssa.Send:
				if r.X == v {
					return true
				}
			case *ssa.Select:
				for _, st := range r.States {
					if st.Dir == types.SendOnly && st.Send == v {
						return true
					}
				}
			case *ssa.Phi, *ssa.MakeInterface, *ssa.ChangeInterface:
				push(r.(ssa.Value))
			case *ssa.Store:
				if r.Val != v {
					continue
				}
				switch a := r.Addr.(type) {
				case *ssa.Alloc:
					followCell(a)
				case *ssa.FieldAddr:
					if base, ok := a.X.(*ssa.Alloc); ok {
						followCell(base)
					}
				}
			}
		}
	}
	return false
}

// ---------------------------------------------------------------- R-ERR-4

func init() {
	register(&Rule{
		ID: "R-ERR-4",
		Doc: "No path loses a write error (path-sensitive companion of R-ERR): from every call site of the write-path universe W, on every path on which the returned error is not known " +
			"to be nil, the error value reaches a sink - it is returned, sent, stored in a field / global / captured variable, or passed to a non-logging callee (OnError, fmt.Errorf " +
			"whose result is then followed) - before the function returns without it or the same call is executed again. A `break` that lets a later assignment overwrite the " +
			"error, or a branch that only logs it, is a violation even though another path propagates it.",
		Props: []string{"C06", "C13", "C04"},
		Floor: 10,
		Run:   ruleErr4,
		Exceptions: []string{
			"(*Store).writeSegments$1 -> (*bufferedSectionWriter).Stop (x2): the onError closure runs when an error is already being returned; the first error wins",
			"newBufferedSectionWriter$1 -> io.WriterAt.WriteAt: the writer goroutine's `case <-stopCh: return` abandons a pending result only after Stop has collected the last one (R-ERR-2)",
		},
	})
}

func errSites(c *Ctx, f *ssa.Function, W map[*ssa.Function]bool) (sites []*ssa.Call, names []string) {
	eachInstr(f, func(i ssa.Instruction) {
		call, ok := i.(*ssa.Call)
		if !ok {
			return
		}
		name := ""
		if p, ok := writePrimitive(call); ok {
			name = p
		} else if isFieldFuncCall(call, "CollectionOptions", "LowerLevelUpdate") {
			name = "CollectionOptions.LowerLevelUpdate"
		} else {
			for _, cal := range c.Callees(call) {
				if W[cal] {
					name = c.fname(cal)
					break
				}
			}
		}
		if name == "" || errResultIndex(call.Call.Signature()) < 0 {
			return
		}
		sites = append(sites, call)
		names = append(names, name)
	})
	return
}

func ruleErr4(c *Ctx) []*Ob {
	o := newObs(c, "R-ERR-4")
	W := writeUniverse(c)
	except := map[string]bool{
		"(*Store).writeSegments$1|(*bufferedSectionWriter).Stop": true,
		// the section writer goroutine returns when stopCh is closed; Stop collects the last result before closing it (R-ERR-2)
		"newBufferedSectionWriter$1|io.WriterAt.WriteAt": true,
	}
	for _, f := range c.Funcs {
		if c.isHarness(f) {
			continue
		}
		fn := c.fname(f)
		sites, names := errSites(c, f, W)
		for k, call := range sites {
			construct := "call " + names[k]
			if len(errValues(call)) == 0 {
				continue // never extracted: R-ERR reports it
			}
			if except[fn+"|"+names[k]] || (strings.HasSuffix(names[k], ".Stop") && isErrorPathCleanup(f)) {
				o.trivial(fn, construct, c.instrPos(call), "table exception (see the rule's exceptions)")
				continue
			}
			bad := errLostOnPath(c, f, call)
			why := "on every path the error is nil, or reaches a return / channel / field / OnError before the function returns or repeats the call"
			if bad != "" {
				why = bad
			}
			o.add(fn, construct, c.instrPos(call), bad == "", why)
		}
	}
	return o.list
}

// errLostOnPath walks forward from call k tracking its error result.
func errLostOnPath(c *Ctx, f *ssa.Function, k *ssa.Call) string {
	idx := errResultIndex(k.Call.Signature())
	var seed []ssa.Value
	if k.Call.Signature().Results().Len() == 1 {
		seed = []ssa.Value{k}
	}
	tracked := func(t *tracker, v ssa.Value) bool {
		if t.vals[v] {
			return true
		}
		// a slice of a local array (varargs) one of whose elements holds the tracked value
		if sl, ok := v.(*ssa.Slice); ok {
			if arr, isA := sl.X.(*ssa.Alloc); isA {
				if refs := arr.Referrers(); refs != nil {
					for _, r := range *refs {
						if ia, isIA := r.(*ssa.IndexAddr); isIA && t.cells[ia] {
							return true
						}
					}
				}
			}
		}
		return false
	}
	bad := ""
	walk(after(k), walkOpts{
		origin: k, originIdx: idx, seed: seed, noInline: true,
		visit: func(i ssa.Instruction, t *tracker) bool {
			if bad != "" {
				return true
			}
			switch x := i.(type) {
			case *ssa.Return:
				for _, r := range x.Results {
					if tracked(t, r) {
						return true
					}
				}
				bad = "a path on which the error may be non-nil reaches the return at " + c.instrPos(i) + " without the error having been returned, stored, sent or handed to OnError: the failed write is reported as success (or only logged)"
				return true
			case *ssa.Send:
				return tracked(t, x.X)
			case *ssa.Select:
				for _, st := range x.States {
					if st.Dir == types.SendOnly && tracked(t, st.Send) {
						return true
					}
				}
			case *ssa.Store:
				if !tracked(t, x.Val) {
					return false
				}
				switch a := x.Addr.(type) {
				case *ssa.FreeVar, *ssa.Global:
					return true
				case *ssa.FieldAddr:
					if _, local := a.X.(*ssa.Alloc); !local {
						return true
					}
					t.cells[a.X] = true // a struct temporary now carries the error (ioBuf{err: err})
				case *ssa.IndexAddr:
					if _, local := a.X.(*ssa.Alloc); !local {
						return true
					}
				}
			case *ssa.MapUpdate:
				return tracked(t, x.Value)
			case *ssa.MakeClosure:
				for _, b := range x.Bindings {
					if t.vals[b] || t.cells[b] {
						return true
					}
				}
			case ssa.CallInstruction:
				if i == ssa.Instruction(k) {
					bad = "a path on which the error may be non-nil comes round to the same call again (" + c.instrPos(i) + ") without the error having been returned, stored, sent or handed to OnError: it is overwritten"
					return true
				}
				cc := x.Common()
				passes := false
				for _, a := range cc.Args {
					if tracked(t, a) {
						passes = true
					}
				}
				if !passes {
					return false
				}
				if sf := cc.StaticCallee(); sf != nil {
					if sf.Pkg == c.Moss && loggingCallees[c.fname(sf)] {
						return false
					}
					if isStaticCall(x, "fmt", "Errorf") {
						if val, ok := x.(*ssa.Call); ok {
							t.vals[val] = true // wrapped: the new error carries it
						}
						return false
					}
					if isStaticCall(x, "fmt", "Sprintf") || isStaticCall(x, "fmt", "Printf") || isStaticCall(x, "fmt", "Println") {
						return false
					}
					return true
				}
				if fv, _ := loadedField(cc.Value); fv != nil && fv.Name() == "Log" {
					return false
				}
				return true
			}
			return false
		},
		edge: func(from, to *ssa.BasicBlock, label string, cond ssa.Value, onTrue bool, t *tracker) bool {
			if bad != "" || label == "nil" {
				return true
			}
			// `err == ErrSentinel` (a package-level error variable): on the equal edge the error is that
			// sentinel, not an I/O failure - handling it there is a decision, not a loss
			if b, ok := cond.(*ssa.BinOp); ok && (b.Op == token.EQL || b.Op == token.NEQ) {
				x, y := b.X, b.Y
				if t.vals[y] {
					x, y = y, x
				}
				if t.vals[x] {
					if ld, isLd := y.(*ssa.UnOp); isLd && ld.Op == token.MUL {
						if _, isG := ld.X.(*ssa.Global); isG && (b.Op == token.EQL) == onTrue {
							return true
						}
					}
				}
			}
			return false
		},
	})
	return bad
}

// ---------------------------------------------------------------- R-ERR-5 / ERR-6 / ABORT-1

func init() {
	register(&Rule{
		ID: "R-ERR-5",
		Doc: "Errors that arrive through a channel are not lost either: for a struct received from a channel (ioResult, ioBuf) the error-typed field that is read from it is followed like a call's error " +
			"result (R-ERR-4): on every path on which it may be non-nil it reaches a return, a field, a channel or OnError before the function returns or receives the next result. " +
			"A collecting loop that assigns `err = res.err` for every result lets the second, successful, write overwrite the first one's failure.",
		Props: []string{"C06", "C04"},
		Floor: 1,
		Run:   ruleErr5,
	})
	register(&Rule{
		ID: "ERR-6",
		Doc: "Write writes everything: in bufferedSectionWriter.Write every path from the entry to a return passes an edge on which the caller's slice is exhausted (`len(p) > 0` false, " +
			"`n < len(p)` false, …, p being the parameter or a re-slice of it) or an edge on which an error is set (`b.err != nil`). The compaction's writer ignores the returned count, " +
			"so a Write that stops after one buffer and a remainder silently truncates every key or value larger than two buffers.",
		Props: []string{"C07", "C04", "C19"},
		Floor: 1,
		Run:   ruleErr6,
	})
	register(&Rule{
		ID: "ABORT-1",
		Doc: "An aborted merge is a failed merge: in segmentStack.mergeInto every path from the select case that received from cancelCh to a return returns a non-nil error (ErrAborted). " +
			"A `break` there returns success with a truncated segment, which compact then publishes in a new file while scheduling the complete old file for removal.",
		Props: []string{"C07", "C16"},
		Floor: 1,
		Run:   ruleAbort1,
	})
}

func ruleErr5(c *Ctx) []*Ob {
	o := newObs(c, "R-ERR-5")
	for _, f := range c.Funcs {
		if c.isHarness(f) {
			continue
		}
		fn := c.fname(f)
		eachInstr(f, func(i ssa.Instruction) {
			var src ssa.Value
			var fld *types.Var
			switch x := i.(type) {
			case *ssa.Field:
				st, ok := x.X.Type().Underlying().(*types.Struct)
				if !ok || !isErrorType(st.Field(x.Field).Type()) {
					return
				}
				fromRecv := false
				for _, og := range origins(x.X) {
					if u, isU := og.(*ssa.UnOp); isU && u.Op == token.ARROW {
						fromRecv = true
					}
					if e, isE := og.(*ssa.Extract); isE {
						if _, isSel := e.Tuple.(*ssa.Select); isSel {
							fromRecv = true
						}
						if u, isU := e.Tuple.(*ssa.UnOp); isU && u.Op == token.ARROW {
							fromRecv = true
						}
					}
				}
				if !fromRecv {
					return
				}
				src, fld = x, st.Field(x.Field)
			case *ssa.UnOp:
				if x.Op != token.MUL {
					return
				}
				fa, ok := x.X.(*ssa.FieldAddr)
				if !ok || !isErrorType(x.Type()) {
					return
				}
				cell, isCell := fa.X.(*ssa.Alloc)
				if !isCell {
					return
				}
				fromRecv := false
				if refs := cell.Referrers(); refs != nil {
					for _, r := range *refs {
						if st, isSt := r.(*ssa.Store); isSt && st.Addr == ssa.Value(cell) {
							for _, og := range origins(st.Val) {
								if u, isU := og.(*ssa.UnOp); isU && u.Op == token.ARROW {
									fromRecv = true
								}
								if e, isE := og.(*ssa.Extract); isE {
									if _, isSel := e.Tuple.(*ssa.Select); isSel {
										fromRecv = true
									}
								}
							}
						}
					}
				}
				if !fromRecv {
					return
				}
				src, fld = x, fieldAddrVar(fa)
			default:
				return
			}
			// only the first read of the field of one received value starts a walk (later reads are copies the tracker cannot see: seed them all)
			bad := errLostFrom(c, f, i, src)
			why := "on every path the received error is nil, or reaches a return / channel / field / OnError before the function returns or receives again"
			if bad != "" {
				why = bad
			}
			o.add(fn, "received "+fld.Name(), c.instrPos(i), bad == "", why)
		})
	}
	return o.list
}

// errLostFrom: like errLostOnPath, but for an error value that is read at instruction at (a field of a received struct).
func errLostFrom(c *Ctx, f *ssa.Function, at ssa.Instruction, v ssa.Value) string {
	// all reads of the same field of the same struct value are copies of the same error
	seed := []ssa.Value{v}
	if fx, ok := v.(*ssa.Field); ok {
		if refs := fx.X.Referrers(); refs != nil {
			for _, r := range *refs {
				if g, isF := r.(*ssa.Field); isF && g.Field == fx.Field && g != fx {
					seed = append(seed, g)
				}
			}
		}
	}
	if ld, ok := v.(*ssa.UnOp); ok {
		if fa, isFA := ld.X.(*ssa.FieldAddr); isFA {
			if refs := fa.X.Referrers(); refs != nil {
				for _, r := range *refs {
					if g, isG := r.(*ssa.FieldAddr); isG && g.Field == fa.Field {
						for _, l := range loadsOf(g) {
							seed = append(seed, l)
						}
					}
				}
			}
		}
	}
	isSeed := map[ssa.Instruction]bool{}
	for _, s := range seed {
		if si, ok := s.(ssa.Instruction); ok {
			isSeed[si] = true
		}
	}
	bad := ""
	first := true
	walk(at2(at), walkOpts{
		seed: seed, noInline: true,
		visit: func(i ssa.Instruction, t *tracker) bool {
			if bad != "" {
				return true
			}
			if i == at {
				if first {
					first = false
					return false
				}
				bad = "a path on which the received error may be non-nil comes round to the next receive (" + c.instrPos(i) + ") without the error having been returned, stored, sent or handed to OnError: the next result overwrites it"
				return true
			}
			switch x := i.(type) {
			case *ssa.Return:
				for _, r := range x.Results {
					if t.vals[r] {
						return true
					}
				}
				bad = "a path on which the received error may be non-nil reaches the return at " + c.instrPos(i) + " without the error: a failed write is reported as success"
				return true
			case *ssa.Send:
				return t.vals[x.X]
			case *ssa.Store:
				if !t.vals[x.Val] {
					return false
				}
				switch a := x.Addr.(type) {
				case *ssa.FreeVar, *ssa.Global:
					return true
				case *ssa.FieldAddr:
					if _, local := a.X.(*ssa.Alloc); !local {
						return true
					}
				}
			case ssa.CallInstruction:
				cc := x.Common()
				passes := false
				for _, a := range cc.Args {
					if t.vals[a] {
						passes = true
					}
					if sl, isSl := a.(*ssa.Slice); isSl {
						if arr, isA := sl.X.(*ssa.Alloc); isA {
							if refs := arr.Referrers(); refs != nil {
								for _, r := range *refs {
									if ia, isIA := r.(*ssa.IndexAddr); isIA && t.cells[ia] {
										passes = true
									}
								}
							}
						}
					}
				}
				if !passes {
					return false
				}
				if sf := cc.StaticCallee(); sf != nil {
					if sf.Pkg == c.Moss && loggingCallees[c.fname(sf)] {
						return false
					}
					if isStaticCall(x, "fmt", "Errorf") {
						if val, ok := x.(*ssa.Call); ok {
							t.vals[val] = true
						}
						return false
					}
					if isStaticCall(x, "fmt", "Sprintf") || isStaticCall(x, "fmt", "Printf") {
						return false
					}
					return true
				}
				return true
			}
			return false
		},
		edge: func(from, to *ssa.BasicBlock, label string, cond ssa.Value, onTrue bool, t *tracker) bool {
			return bad != "" || label == "nil"
		},
	})
	return bad
}

func at2(i ssa.Instruction) point { return point{i.Block(), instrIndex(i)} }

func ruleErr6(c *Ctx) []*Ob {
	o := newObs(c, "ERR-6")
	f := c.Fn("(*bufferedSectionWriter).Write")
	fn := c.fname(f)
	fErr := c.Field("bufferedSectionWriter", "err")
	var p *ssa.Parameter
	for _, q := range f.Params {
		if _, isSlice := q.Type().Underlying().(*types.Slice); isSlice {
			p = q
		}
	}
	if p == nil {
		o.add(fn, "parameter p", c.pos(f.Pos()), false, "anchor lost: Write has no slice parameter")
		return o.list
	}
	fromP := func(v ssa.Value) bool {
		found := false
		var rec func(v ssa.Value, d int)
		seen := map[ssa.Value]bool{}
		rec = func(v ssa.Value, d int) {
			if seen[v] || d > 8 || found {
				return
			}
			seen[v] = true
			for _, og := range origins(v) {
				if og == ssa.Value(p) {
					found = true
					return
				}
				if sl, ok := og.(*ssa.Slice); ok {
					rec(sl.X, d+1)
				}
				if ph, ok := og.(*ssa.Phi); ok {
					for _, e := range ph.Edges {
						rec(e, d+1)
					}
				}
			}
		}
		rec(v, 0)
		return found
	}
	lenOfP := func(v ssa.Value) bool {
		call, ok := v.(*ssa.Call)
		if !ok || len(call.Call.Args) != 1 {
			return false
		}
		b, isB := call.Call.Value.(*ssa.Builtin)
		return isB && b.Name() == "len" && fromP(call.Call.Args[0])
	}
	done := func(from, to *ssa.BasicBlock, cond ssa.Value, onTrue bool) bool {
		// an error is set
		if r := nilFieldEdge(fErr, false)(from, to, cond, onTrue); r {
			return true
		}
		b, ok := cond.(*ssa.BinOp)
		if !ok {
			return false
		}
		// normalise to  X OP len(p)  or  len(p) OP X
		switch {
		case lenOfP(b.X):
			// len(p) > 0 false ; len(p) == 0 true ; len(p) <= n true ; len(p) > n false
			switch b.Op {
			case token.GTR:
				return !onTrue
			case token.LEQ, token.EQL:
				return onTrue
			case token.NEQ:
				return !onTrue && isZeroConst(b.Y)
			}
		case lenOfP(b.Y):
			// n < len(p) false ; n >= len(p) true ; n == len(p) true
			switch b.Op {
			case token.LSS:
				return !onTrue
			case token.GEQ, token.EQL:
				return onTrue
			}
		}
		return false
	}
	n := 0
	eachInstr(f, func(i ssa.Instruction) {
		r, ok := i.(*ssa.Return)
		if !ok {
			return
		}
		if len(r.Results) > 0 && isAnyGlobalLoad(r.Results[len(r.Results)-1]) {
			return // refuses the request with a sentinel error (io.ErrShortBuffer)
		}
		n++
		okk := mustPrecede(f, i, neverInstr, done)
		why := "returns only when the caller's slice is exhausted or an error is recorded"
		if !okk {
			why = "Write can return on a path that neither exhausted the caller's slice nor recorded an error: whatever did not fit into the buffer(s) it filled is dropped - the compactor ignores the byte count, so a key or value larger than two compaction buffers is truncated in the compacted file"
		}
		o.add(fn, "return", c.instrPos(i), okk, why)
	})
	if n == 0 {
		o.add(fn, "return", c.pos(f.Pos()), false, "anchor lost")
	}
	return o.list
}

func ruleAbort1(c *Ctx) []*Ob {
	o := newObs(c, "ABORT-1")
	f := c.Fn("(*segmentStack).mergeInto")
	fn := c.fname(f)
	cancel := paramNamed(f, "cancelCh")
	if cancel == nil {
		o.add(fn, "parameter cancelCh", c.pos(f.Pos()), false, "anchor lost: mergeInto has no cancelCh parameter")
		return o.list
	}
	// caseBlock: for a select in g with a receive state on channel value ch, the block entered when that state fired
	caseBlock := func(sel *ssa.Select, k int) *ssa.BasicBlock {
		var idx ssa.Value
		if refs := sel.Referrers(); refs != nil {
			for _, r := range *refs {
				if e, isE := r.(*ssa.Extract); isE && e.Index == 0 {
					idx = e
				}
			}
		}
		if idx == nil {
			return nil
		}
		if refs := idx.Referrers(); refs != nil {
			for _, r := range *refs {
				b, isB := r.(*ssa.BinOp)
				if !isB || b.Op != token.EQL || !isConstInt(b.Y, int64(k)) {
					continue
				}
				if rr := b.Referrers(); rr != nil {
					for _, u := range *rr {
						if iff, isIf := u.(*ssa.If); isIf {
							return iff.Block().Succs[0]
						}
					}
				}
			}
		}
		return nil
	}
	type branch struct {
		start *ssa.BasicBlock
		at    ssa.Instruction
	}
	var branches []branch
	undecided := ""
	eachInstr(f, func(i ssa.Instruction) {
		switch x := i.(type) {
		case *ssa.Select:
			for k, st := range x.States {
				if st.Dir == types.RecvOnly && sameValue(st.Chan, cancel) {
					if b := caseBlock(x, k); b != nil {
						branches = append(branches, branch{b, i})
					} else {
						undecided = c.instrPos(i)
					}
				}
			}
		case *ssa.Call:
			// a helper that polls the channel and reports the answer as a bool: `if isCanceled(cancelCh) {`
			h := x.Call.StaticCallee()
			if h == nil || h.Pkg != c.Moss || h.Blocks == nil {
				return
			}
			pi := -1
			for k, a := range x.Call.Args {
				if sameValue(a, cancel) {
					pi = k
				}
			}
			if pi < 0 || pi >= len(h.Params) || h.Signature.Results().Len() != 1 {
				return
			}
			// what does the helper return when the channel fired?
			var fired *bool
			eachInstr(h, func(j ssa.Instruction) {
				sel, ok := j.(*ssa.Select)
				if !ok {
					return
				}
				for k, st := range sel.States {
					if st.Dir != types.RecvOnly || !sameValue(st.Chan, h.Params[pi]) {
						continue
					}
					cb := caseBlock(sel, k)
					if cb == nil {
						continue
					}
					walk(point{cb, 0}, walkOpts{noInline: true, visit: func(q ssa.Instruction, t *tracker) bool {
						if r, isR := q.(*ssa.Return); isR && len(r.Results) == 1 {
							if v, isK := constBool(t.resolve(r.Results[0])); isK {
								fired = &v
							} else if v, isK := constBool(r.Results[0]); isK {
								fired = &v
							}
							return true
						}
						return false
					}})
				}
			})
			if fired == nil {
				return
			}
			if refs := x.Referrers(); refs != nil {
				for _, r := range *refs {
					iff, isIf := r.(*ssa.If)
					if !isIf {
						if u, isU := r.(*ssa.UnOp); isU && u.Op == token.NOT {
							if rr := u.Referrers(); rr != nil {
								for _, r2 := range *rr {
									if iff2, ok2 := r2.(*ssa.If); ok2 {
										si := 1
										if !*fired {
											si = 0
										}
										branches = append(branches, branch{iff2.Block().Succs[si], i})
									}
								}
							}
						}
						continue
					}
					si := 0
					if !*fired {
						si = 1
					}
					branches = append(branches, branch{iff.Block().Succs[si], i})
				}
			}
		}
	})
	if undecided != "" {
		o.add(fn, "case <-cancelCh", undecided, false, "undecided: the branch taken when cancelCh is ready was not found")
	}
	if len(branches) == 0 && undecided == "" {
		o.add(fn, "case <-cancelCh", c.pos(f.Pos()), false, "anchor lost: mergeInto no longer polls cancelCh (directly or through a helper)")
		return o.list
	}
	errCells := map[ssa.Value]bool{}
	eachInstr(f, func(q ssa.Instruction) {
		if r, isR := q.(*ssa.Return); isR && len(r.Results) > 0 {
			if ld, isLd := r.Results[len(r.Results)-1].(*ssa.UnOp); isLd && ld.Op == token.MUL {
				if a, isA := ld.X.(*ssa.Alloc); isA {
					errCells[a] = true
				}
			}
		}
	})
	for _, br := range branches {
		bad := ""
		walk(point{br.start, 0}, walkOpts{noInline: true, visit: func(j ssa.Instruction, t *tracker) bool {
			if bad != "" {
				return true
			}
			if st, isSt := j.(*ssa.Store); isSt && errCells[st.Addr] {
				if isNilConst(st.Val) {
					bad = c.instrPos(j)
				}
				return true // the function's result is decided here
			}
			if r, isR := j.(*ssa.Return); isR {
				if isNilConst(r.Results[len(r.Results)-1]) {
					bad = c.instrPos(j)
				}
				return true
			}
			if j == br.at {
				bad = c.instrPos(j) + " (the loop goes on)"
				return true
			}
			return false
		}})
		why := "a ready cancelCh leads to an error return"
		if bad != "" {
			why = "after cancelCh was found ready a path reaches " + bad + " without an error: the aborted merge reports success, its truncated output is published by compact in a new file and the complete old file is scheduled for removal"
		}
		o.add(fn, "case <-cancelCh", c.instrPos(br.at), bad == "", why)
	}
	return o.list
}

// isErrorPathCleanup: f has the shape of an error-path clean-up helper - it takes an error and every return hands
// exactly that error back (writeSegments' onError closure, or the same code as a method): whatever it stops or
// closes on the way fails "second"; the error being returned is the first one.
func isErrorPathCleanup(f *ssa.Function) bool {
	var errParam *ssa.Parameter
	for k, p := range f.Params {
		if f.Signature.Recv() != nil && k == 0 {
			continue
		}
		if isErrorType(p.Type()) {
			if errParam != nil {
				return false
			}
			errParam = p
		}
	}
	res := f.Signature.Results()
	if errParam == nil || res.Len() != 1 || !isErrorType(res.At(0).Type()) {
		return false
	}
	ok, n := true, 0
	eachInstr(f, func(i ssa.Instruction) {
		if r, isR := i.(*ssa.Return); isR {
			n++
			for _, og := range origins(r.Results[0]) {
				if og != ssa.Value(errParam) {
					ok = false
				}
			}
		}
	})
	return ok && n > 0
}
