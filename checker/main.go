package main

// mosslint: repository-specific static checker for couchbase/moss.
//
//	mosslint -property C05 -tier quick|thorough   decide one property
//	mosslint -dump                                 all rules, all obligations
//	mosslint -replay FILE                          re-derive one obligation
//	mosslint -selftest [-rules a,b]                run the mutant corpus

import (
	"flag"
	"fmt"
	"os"
	"path/filepath"
	"runtime"
	"runtime/debug"
	"sort"
	"strconv"
	"strings"
	"time"
)

var (
	flagProperty = flag.String("property", "", "property id (C01…C20)")
	flagTier     = flag.String("tier", "quick", "quick | thorough")
	flagRepo     = flag.String("repo", "/repo", "moss working tree to analyse")
	flagVerif    = flag.String("verif", "/verif", "verification directory (known findings, evidence)")
	flagDump     = flag.Bool("dump", false, "run every rule and print every obligation")
	flagReplay   = flag.String("replay", "", "replay file written with a VIOLATION line")
	flagRules    = flag.String("rules", "", "comma separated rule ids (with -dump / -selftest)")
	flagSelftest = flag.Bool("selftest", false, "run the mutant self-test corpus")
	flagNoEvid   = flag.Bool("no-evidence", false, "do not write evidence/replay files")
	flagCHA      = flag.Bool("cha", false, "use the CHA call graph instead of VTA")
	flagJSON     = flag.Bool("json", false, "with -dump: print obligations as JSON lines")
	flagMutants  = flag.String("mutants", "", "with -selftest: only mutants whose id contains this")
	flagJobs     = flag.Int("j", 6, "parallel mutant analyses")
	flagConfig   = flag.String("config", "", "with -dump: build configuration name (e.g. windows/amd64)")
)

func main() {
	flag.Parse()
	code := 0
	func() {
		defer func() {
			if r := recover(); r != nil {
				if b, ok := r.(brokenCheck); ok {
					fmt.Printf("CHECK-BROKEN %s\n", b.msg)
					code = 2
					return
				}
				fmt.Printf("CHECK-BROKEN internal panic: %v\n%s\n", r, debug.Stack())
				code = 2
			}
		}()
		switch {
		case *flagReplay != "":
			code = runReplay(*flagReplay)
		case *flagSelftest:
			code = runSelftestCLI()
		case *flagDump:
			code = runDump()
		case *flagProperty != "":
			code = runProperty(*flagProperty, *flagTier)
		default:
			flag.Usage()
			code = 2
		}
	}()
	os.Exit(code)
}

func selectedRules() []*Rule {
	if *flagRules == "" {
		return rules
	}
	want := map[string]bool{}
	for _, r := range strings.Split(*flagRules, ",") {
		want[strings.TrimSpace(r)] = true
	}
	var out []*Rule
	for _, r := range rules {
		if want[r.ID] {
			out = append(out, r)
		}
	}
	return out
}

// runRules runs rs on c, enforcing floors.
func runRules(c *Ctx, rs []*Rule) (all []*Ob, perRule map[string]int) {
	perRule = map[string]int{}
	for _, r := range rs {
		l := r.Run(c)
		perRule[r.ID] = len(l)
		if len(l) < r.Floor && *flagDump {
			if *flagJSON {
				all = append(all, l...)
				continue
			}
			fmt.Printf("# WARNING rule %s matched %d sites, below its floor %d\n", r.ID, len(l), r.Floor)
		} else if len(l) < r.Floor {
			broken("rule %s matched %d sites, below its floor %d (config %s): anchors lost, a vacuous pass is not a pass",
				r.ID, len(l), r.Floor, c.Config.Name)
		}
		all = append(all, l...)
	}
	sortObs(all)
	return
}

func runDump() int {
	cfg := defaultConfig
	for _, tc := range thoroughConfigs {
		if tc.Name == *flagConfig {
			cfg = tc
		}
	}
	c := loadCtx(*flagRepo, cfg)
	c.UseCHA = *flagCHA
	all, per := runRules(c, selectedRules())
	nv := 0
	for _, o := range all {
		if *flagJSON {
			writeJSONLine(o)
			continue
		}
		mark := "ok  "
		if o.Verdict != Holds {
			mark = "FAIL"
			nv++
		}
		triv := ""
		if o.Trivial {
			triv = " (trivial)"
		}
		fmt.Printf("%s %-9s %-16s %s\n       %s%s\n", mark, o.Rule, o.Pos, o.Key, o.Why, triv)
	}
	var ids []string
	for id := range per {
		ids = append(ids, id)
	}
	sort.Strings(ids)
	for _, id := range ids {
		fmt.Printf("# %-10s %d obligations\n", id, per[id])
	}
	fmt.Printf("# total %d obligations, %d violated (walks given up: %d)\n", len(all), nv, walkGaveUp)
	return 0
}

func writeJSONLine(v interface{}) {
	b, _ := jsonMarshal(v)
	fmt.Println(string(b))
}

func propertyKnown(p string) bool {
	for _, r := range rules {
		for _, q := range r.Props {
			if q == p {
				return true
			}
		}
	}
	return false
}

func runProperty(prop, tier string) int {
	start := time.Now()
	if tier != "quick" && tier != "thorough" {
		broken("unknown tier %q", tier)
	}
	if !propertyKnown(prop) {
		broken("no rule serves property %s (not claimed)", prop)
	}
	rs := rulesFor(prop)
	ff := loadFindings(filepath.Join(*flagVerif, "known_findings.json"))

	configs := []BuildConfig{defaultConfig}
	if tier == "thorough" {
		configs = thoroughConfigs
	}
	uni := universe{PerRule: map[string]int{}, Floors: map[string]int{}, CallGraph: "VTA seeded by CHA (x/tools v0.29.0)"}
	for _, r := range rs {
		uni.Floors[r.ID] = r.Floor
	}
	type agg struct {
		ob      *Ob
		configs []string
	}
	byKey := map[string]*agg{}
	var order []string
	evaluations := 0
	merge := func(list []*Ob, cfgName string) {
		for _, o := range list {
			evaluations++
			a := byKey[o.Key]
			if a == nil {
				a = &agg{ob: o}
				byKey[o.Key] = a
				order = append(order, o.Key)
			} else if a.ob.Verdict == Holds && o.Verdict != Holds {
				a.ob = o
			}
			a.configs = append(a.configs, cfgName)
		}
	}
	for ci, cfg := range configs {
		c := loadCtx(*flagRepo, cfg)
		list, per := runRules(c, rs)
		relocateKnown(c, list, ff)
		merge(list, cfg.Name)
		if ci == 0 {
			uni.Packages = 1
			uni.Files = len(c.Files)
			uni.Functions = len(c.Funcs)
			uni.CGNodes, uni.CGEdges = c.cgStats()
			for k, v := range per {
				uni.PerRule[k] = v
			}
		}
		uni.Configs = append(uni.Configs, cfg.Name)
		if tier == "thorough" && ci == 0 {
			// verdicts must not depend on VTA's pruning: re-run on plain CHA.
			c.UseCHA = true
			c.callersCache = map[*ssaFunc][]callSite{}
			list2, _ := runRules(c, rs)
			merge(list2, cfg.Name+"/CHA")
			uni.Configs = append(uni.Configs, cfg.Name+"/CHA")
		}
		c = nil
		runtime.GC()
		debug.FreeOSMemory()
	}

	// triage
	var all []*Ob
	for _, k := range order {
		all = append(all, byKey[k].ob)
	}
	sortObs(all)
	nViol, nKnown, discharged, nontrivial := 0, 0, 0, 0
	var samples []interface{}
	var staleKnown []string
	replayDir := filepath.Join(*flagVerif, "evidence", "replay")
	for _, o := range all {
		if !o.Trivial {
			nontrivial++
		}
		if o.Verdict == Holds {
			discharged++
			continue
		}
		if f := ff.known(o.Key); f != nil {
			o.Status = "known"
			nKnown++
			fmt.Printf("KNOWN-FINDING: property=%s %s: %s [%s at %s]\n", prop, f.ID, f.What, o.Key, o.Pos)
			continue
		}
		nViol++
		o.Status = "VIOLATION"
		rp := filepath.Join(replayDir, fmt.Sprintf("%s-%d.json", prop, nViol))
		if !*flagNoEvid {
			writeJSON(rp, map[string]interface{}{
				"property": prop, "rule": o.Rule, "key": o.Key, "function": o.Func,
				"pos": o.Pos, "construct": o.Construct, "why": o.Why, "path": o.Path, "config": o.Config,
			})
		}
		fmt.Printf("%s: %s: %s: %s\n", o.Pos, o.Rule, o.Construct, o.Why)
		fmt.Printf("VIOLATION property=%s replay=%s\n", prop, rp)
	}
	for i := range ff.Findings {
		f := &ff.Findings[i]
		if f.Status != "known" {
			continue
		}
		for _, k := range f.Keys {
			if a := byKey[k]; a != nil && a.ob.Verdict == Holds {
				staleKnown = append(staleKnown, f.ID+": "+k)
			}
		}
	}
	// samples: every non-holding obligation, plus up to 25 discharged nontrivial ones
	for _, o := range all {
		if o.Verdict != Holds {
			samples = append(samples, o)
		}
	}
	n := 0
	for _, o := range all {
		if o.Verdict == Holds && !o.Trivial && n < 25 {
			samples = append(samples, o)
			n++
		}
	}
	var exceptions []string
	for _, r := range rs {
		for _, e := range r.Exceptions {
			exceptions = append(exceptions, r.ID+": "+e)
		}
	}
	cov := map[string]interface{}{
		"explanation": "Static analysis (go/types + go/ssa + dominance/path walks + VTA call graph) of /repo's working tree. " +
			"The check decides the structural necessary conditions listed below for property " + prop +
			"; it does not decide the value-level behaviour. Rules:\n" + ruleTexts(rs),
		"rule": "one obligation per (rule, function, construct) site enumerated from the loaded program; " +
			"nontrivial = decided by control/data-flow reasoning rather than by a constructor/literal exemption; distinct = distinct obligation keys across configurations",
		"obligations":         len(all),
		"discharged":          discharged,
		"known_findings":      nKnown,
		"evaluations":         evaluations,
		"distinct_nontrivial": nontrivial,
		"samples":             samples,
		"exhaustive":          true,
		"checker_cmd":         fmt.Sprintf("/verif/bin/mosslint -property %s -tier %s", prop, tier),
		"trusted_base": []string{"go/types and go/ssa of golang.org/x/tools v0.29.0", "VTA/CHA call graph construction",
			"the frozen rule tables of /verif/checker (each entry with its reason)", "io.WriterAt contract; ReadAt past a torn tail returns io.EOF; O_RDONLY descriptors reject writes"},
		"universe":   uni,
		"exceptions": exceptions,
	}
	if len(staleKnown) > 0 {
		cov["stale_known"] = staleKnown
	}
	if tier == "thorough" && !*flagNoEvid {
		st := runSelftest(rs, *flagJobs, "")
		cov["selftest"] = st
		for _, s := range st.Survived {
			fmt.Printf("SELFTEST: mutant %s was not reported by the checker\n", s)
		}
	}
	seed, _ := strconv.Atoi(os.Getenv("VERIF_SEED"))
	ev := evidence{
		PropertyID: prop, Tier: tier, Seed: seed, Level: "other", Coverage: cov,
		Assumptions: []string{
			"value-level behaviour (search, merge arithmetic, byte layout) is outside this check",
			"ownership transfers of reference counts are trusted once a token escapes its function",
			"the rule tables (guarded fields, section ranks, tree walkers, accepted idioms) reflect the documentation of the structs they name",
		},
		WallS: time.Since(start).Seconds(), Violations: nViol,
	}
	if !*flagNoEvid {
		writeJSON(filepath.Join(*flagVerif, "evidence", prop+".json"), ev)
	}
	fmt.Printf("property=%s tier=%s configs=%d rules=%d obligations=%d discharged=%d known=%d violations=%d wall=%.1fs\n",
		prop, tier, len(uni.Configs), len(rs), len(all), discharged, nKnown, nViol, time.Since(start).Seconds())
	if nViol > 0 {
		return 1
	}
	return 0
}

func runReplay(path string) int {
	b, err := os.ReadFile(path)
	if err != nil {
		broken("replay: %v", err)
	}
	var r struct {
		Property, Rule, Key, Config string
	}
	if err := jsonUnmarshal(b, &r); err != nil {
		broken("replay: %v", err)
	}
	cfg := defaultConfig
	for _, c := range thoroughConfigs {
		if c.Name == r.Config {
			cfg = c
		}
	}
	c := loadCtx(*flagRepo, cfg)
	for _, rule := range rules {
		if rule.ID != r.Rule {
			continue
		}
		for _, o := range rule.Run(c) {
			if o.Key == r.Key {
				fmt.Printf("%s: %s: %s: %s [%s]\n", o.Pos, o.Rule, o.Construct, o.Why, o.Verdict)
				for _, p := range o.Path {
					fmt.Printf("    %s\n", p)
				}
				if o.Verdict != Holds {
					return 1
				}
				return 0
			}
		}
	}
	fmt.Printf("replay: obligation %s no longer exists on the current tree\n", r.Key)
	return 0
}

// relocateKnown: a known finding keyed rule|F|construct that now shows up as
// rule|H|construct, where H is a helper whose every call chain starts in F
// (the code was moved into an extracted helper), is still that finding, not a
// new violation. The obligation's key is rewritten to the listed one.
func relocateKnown(c *Ctx, list []*Ob, ff *FindingsFile) {
	for _, o := range list {
		if o.Verdict == Holds || ff.known(o.Key) != nil {
			continue
		}
		f := c.FnOpt(o.Func)
		if f == nil {
			continue
		}
		// unique-caller chain of f
		cur := f
		for depth := 0; depth < 3; depth++ {
			sites := c.Callers(cur)
			if len(sites) == 0 || isExportedRoot(cur) {
				break
			}
			var parent *ssaFunc
			same := true
			for _, s := range sites {
				if parent == nil {
					parent = s.Caller
				} else if parent != s.Caller {
					same = false
				}
			}
			if !same || parent == nil {
				break
			}
			cur = parent
			alt := o.Rule + "|" + c.fname(cur) + "|" + o.Construct
			if ff.known(alt) != nil {
				o.Why += " [moved into helper " + o.Func + ", called only from " + c.fname(cur) + "]"
				o.Key = alt
				break
			}
		}
	}
}
