package main

// R-CLOSED: closed is final, waiters are woken, back-pressure is bounded,
// blocking is cancellable (C16).

import (
	"fmt"
	"go/token"
	"go/types"
	"strings"

	"golang.org/x/tools/go/ssa"
)

func init() {
	register(&Rule{
		ID: "CL-1",
		Doc: "Gate: in Get, NewBatch, newSnapshotLOCKED (hence Snapshot) and ExecuteBatch every path from entry to a success return passes the false edge of an isClosed() test whose true edge " +
			"only leads to returns of ErrClosed. Excepted: ExecuteBatch's empty-batch return (the property says non-empty). Snapshot's cached return is admitted because (CL-1b) Close performs " +
			"close(stopCh) and invalidateLatestSnapshotLOCKED() in one critical section and a non-nil latestSnapshot is only stored behind newSnapshotLOCKED's nil-error edge.",
		Props:      []string{"C16"},
		Floor:      6,
		Run:        ruleCL1,
		Exceptions: []string{"(*collection).ExecuteBatch: return on the `b == nil || b.isEmpty()` edge – an empty batch changes nothing and the property only speaks of non-empty batches"},
	})
	register(&Rule{
		ID:    "CL-2",
		Doc:   "Wait loops: every sync.Cond.Wait lies in a loop, and every cycle from the Wait back to itself evaluates isClosed() with an edge that leaves the loop (a woken waiter re-checks both its condition and closedness).",
		Props: []string{"C16"},
		Floor: 1,
		Run:   ruleCL2,
	})
	register(&Rule{
		ID:    "CL-3",
		Doc:   "Close wakes everybody: in the function that closes stopCh, every *sync.Cond field of collection is Broadcast after the close and before the collection lock is released.",
		Props: []string{"C16"},
		Floor: 1,
		Run:   ruleCL3,
	})
	register(&Rule{
		ID: "CL-4",
		Doc: "Bounded top: the only function storing a non-nil stackDirtyTop is ExecuteBatch; that store is reachable only through the `stackDirtyTop == nil` edge or the false edge of " +
			"`len(stackDirtyTop.a) >= maxPreMergerBatches` (re-evaluated after every wake-up), and buildStackDirtyTop appends the batch's segment outside any loop (once).",
		Props: []string{"C16"},
		Floor: 1,
		Run:   ruleCL4,
	})
	register(&Rule{
		ID: "CL-5",
		Doc: "Cancellable blocking: every channel send / receive in a method of collection (closures included) is either a select that also offers `<-m.stopCh` or has a default, or one of the " +
			"table of proven-ready operations (Close's waits for doneMergerCh / donePersisterCh, whose senders are stop-driven).",
		Props:      []string{"C16"},
		Floor:      3,
		Run:        ruleCL5,
		Exceptions: []string{"receives from doneMergerCh / donePersisterCh (in Close or a helper of it) – both goroutines exit, closing these channels, once stopCh is closed (CL-6)"},
	})
	register(&Rule{
		ID: "CL-6",
		Doc: "Background loops notice Close: in runPersister, runMerger and idleMergerWaker every cycle of every loop passes a stop check – a call of isClosed(), a select with `<-m.stopCh`, " +
			"a call of mergerWaitForWork (whose first result reports the stop), or the load of stats.TotCloseBeg – whose stop edge leaves the loop; and mergerWaitForWork's select offers `<-m.stopCh`.",
		Props: []string{"C16"},
		Floor: 2,
		Run:   ruleCL6,
	})
}

func init() {
	register(&Rule{
		ID: "CL-7",
		Doc: "Wake-ups are delivered: a wake-up channel of the collection (a chan field that some function closes: waitDirtyIncomingCh, waitDirtyOutgoingCh) that is taken out of its field " +
			"(the field is overwritten with nil) has been picked up into a local first, and every path from the overwrite to a return of the function or to the next round of its loop " +
			"closes that local, except where the local is nil. A waker that drops the channel on some path (a failed persister round) leaves the waiter asleep for good.",
		Props: []string{"C16", "C13"},
		Floor: 1,
		Run:   ruleCL7,
	})
}

func isCloseBuiltin(i ssa.Instruction) (ssa.Value, bool) {
	call, ok := i.(*ssa.Call)
	if !ok {
		return nil, false
	}
	if b, ok := call.Call.Value.(*ssa.Builtin); ok && b.Name() == "close" && len(call.Call.Args) == 1 {
		return call.Call.Args[0], true
	}
	return nil, false
}

func ruleCL7(c *Ctx) []*Ob {
	o := newObs(c, "CL-7")
	// wake-up channel fields: chan-typed fields of collection closed somewhere
	wake := map[*types.Var]bool{}
	for _, f := range c.Funcs {
		eachInstr(f, func(i ssa.Instruction) {
			if arg, ok := isCloseBuiltin(i); ok {
				for _, og := range origins(arg) {
					if fv, _ := loadedField(og); fv != nil && c.FieldOwner(fv) == "collection" {
						wake[fv] = true
					}
				}
			}
		})
	}
	fStop := c.Field("collection", "stopCh")
	delete(wake, fStop)
	if len(wake) == 0 {
		o.add("-", "wake-up channels", "-", false, "anchor lost: no channel field of collection is closed anywhere")
		return o.list
	}
	for _, f := range c.Funcs {
		if c.isHarness(f) {
			continue
		}
		fn := c.fname(f)
		for _, a := range fieldAccesses(f, func(v *types.Var) bool { return wake[v] }) {
			if a.Kind != "store" || !isNilConst(a.Val) || isFreshAlloc(a.Base) {
				continue
			}
			construct := "take " + a.Field.Name()
			// loads of the field (same base) that can reach the store
			baseKey := canonKey(a.Base)
			var loads []ssa.Value
			for _, l := range fieldAccesses(f, func(v *types.Var) bool { return v == a.Field }) {
				if l.Kind == "load" && canonKey(l.Base) == baseKey {
					if v, ok := l.Instr.(ssa.Value); ok {
						loads = append(loads, v)
					}
				}
			}
			isLoad := func(i ssa.Instruction) bool {
				for _, l := range loads {
					if l.(ssa.Instruction) == i {
						return true
					}
				}
				return false
			}
			if !mustPrecede(f, a.Instr, isLoad, nil) {
				o.add(fn, construct, c.instrPos(a.Instr), false, "the field is cleared on a path that never read it: whoever waits on the channel is never woken")
				continue
			}
			bad := ""
			walk(after(a.Instr), walkOpts{
				seed:     loads,
				noInline: true,
				visit: func(i ssa.Instruction, t *tracker) bool {
					if bad != "" {
						return true
					}
					if arg, ok := isCloseBuiltin(i); ok && t.vals[arg] {
						return true // woken on this path
					}
					if _, ok := i.(*ssa.Return); ok && i.Parent() == f {
						bad = "a path from the take reaches the return at " + c.instrPos(i) + " without closing the channel"
						return true
					}
					if i == a.Instr {
						bad = "a path from the take comes round to the take again (next loop round) without closing the channel taken before"
						return true
					}
					return false
				},
				edge: func(from, to *ssa.BasicBlock, label string, cond ssa.Value, onTrue bool, t *tracker) bool {
					return bad != "" || label == "nil"
				},
			})
			if bad == "" {
				o.add(fn, construct, c.instrPos(a.Instr), true, "every path from the take closes the channel taken (or the channel was nil)")
			} else {
				o.add(fn, construct, c.instrPos(a.Instr), false, bad+": the waiter (merger / writer throttle) stays asleep although the work it waits for was done")
			}
		}
	}
	return o.list
}

func isCallOf(i ssa.Instruction, f *ssa.Function) bool {
	ci, ok := i.(ssa.CallInstruction)
	return ok && ci.Common().StaticCallee() == f
}

func isMutexOp(i ssa.Instruction, typ string, op string) bool {
	ci, ok := i.(*ssa.Call)
	if !ok {
		return false
	}
	sf := ci.Call.StaticCallee()
	if sf == nil || sf.Name() != op || sf.Signature.Recv() == nil {
		return false
	}
	if typeName(sf.Signature.Recv().Type()) != "Mutex" {
		return false
	}
	fa, ok := ci.Call.Args[0].(*ssa.FieldAddr)
	if !ok {
		return false
	}
	return typ == "" || typeName(fa.X.Type()) == typ
}

// closedEdge: skipEdge predicate for the edge of an `if m.isClosed()` test with the given outcome.
func closedEdge(isClosed *ssa.Function, closed bool) func(from, to *ssa.BasicBlock, cond ssa.Value, onTrue bool) bool {
	return func(from, to *ssa.BasicBlock, cond ssa.Value, onTrue bool) bool {
		neg := false
		for {
			u, ok := cond.(*ssa.UnOp)
			if !ok || u.Op != token.NOT {
				break
			}
			neg = !neg
			cond = u.X
		}
		call, ok := cond.(*ssa.Call)
		if !ok || call.Call.StaticCallee() != isClosed {
			return false
		}
		val := onTrue
		if neg {
			val = !val
		}
		return val == closed
	}
}

func ruleCL1(c *Ctx) []*Ob {
	o := newObs(c, "CL-1")
	isClosed := c.Fn("(*collection).isClosed")
	batchEmpty := c.Fn("(*batch).isEmpty")
	notClosed := closedEdge(isClosed, false)
	for _, fnn := range []string{"(*collection).Get", "(*collection).NewBatch", "(*collection).newSnapshotLOCKED", "(*collection).ExecuteBatch"} {
		f := c.Fn(fnn)
		skip := func(from, to *ssa.BasicBlock, cond ssa.Value, onTrue bool) bool {
			if notClosed(from, to, cond, onTrue) {
				return true
			}
			if fnn == "(*collection).ExecuteBatch" && onTrue {
				// the empty-batch exception: `b == nil` or `b.isEmpty()` true edges
				if call, ok := cond.(*ssa.Call); ok && call.Call.StaticCallee() == batchEmpty {
					return true
				}
				if b, ok := cond.(*ssa.BinOp); ok && b.Op == token.EQL && isNilConst(b.Y) && typeName(b.X.Type()) == "batch" {
					return true
				}
			}
			return false
		}
		n := 0
		eachInstr(f, func(i ssa.Instruction) {
			r, ok := i.(*ssa.Return)
			if !ok || len(r.Results) == 0 || !isErrorType(r.Results[len(r.Results)-1].Type()) || !mayReturnNilError(r.Results[len(r.Results)-1]) {
				return
			}
			n++
			ok2 := mustPrecede(f, r, neverInstr, skip)
			why := "reachable only through the false edge of an isClosed() test"
			if !ok2 {
				why = "a success return is reachable without passing the not-closed edge of an isClosed() test: the call can succeed on a closed collection"
			}
			o.add(fnn, "success return behind isClosed gate", c.instrPos(r), ok2, why)
		})
		if n == 0 {
			o.add(fnn, "success return behind isClosed gate", c.pos(f.Pos()), false, "anchor lost: no success return")
		}
		// the closed edge only leads to ErrClosed returns
		for _, b := range f.Blocks {
			iff, ok := b.Instrs[len(b.Instrs)-1].(*ssa.If)
			if !ok {
				continue
			}
			call, ok := iff.Cond.(*ssa.Call)
			if !ok || call.Call.StaticCallee() != isClosed {
				continue
			}
			okc := true
			first := b.Succs[0].Instrs[0]
			check := func(j ssa.Instruction) bool {
				r, ok := j.(*ssa.Return)
				if !ok {
					return false
				}
				for _, og := range origins(r.Results[len(r.Results)-1]) {
					if !isGlobalLoad(og, mossPath, "ErrClosed") {
						return true
					}
				}
				return false
			}
			if check(first) {
				okc = false
			} else if _, reach := reachableFrom(first, check, nil, nil); reach {
				okc = false
			}
			why := "the closed edge only leads to `return ErrClosed`"
			if !okc {
				why = "after isClosed() reported true the function can still return something other than ErrClosed"
			}
			o.add(fnn, "closed edge returns ErrClosed", c.instrPos(iff), okc, why)
		}
	}
	// CL-1b
	cl := c.Fn("(*collection).Close")
	inval := c.Fn("(*collection).invalidateLatestSnapshotLOCKED")
	fStop := c.Field("collection", "stopCh")
	var closeStop, invalCall ssa.Instruction
	eachInstr(cl, func(i ssa.Instruction) {
		if isCloseOfField(i, fStop) {
			closeStop = i
		}
		if isCallOf(i, inval) {
			invalCall = i
		}
	})
	if closeStop == nil || invalCall == nil {
		o.add(c.fname(cl), "close(stopCh) and cache invalidation in one critical section", c.pos(cl.Pos()), false,
			"Close no longer both closes stopCh and drops the cached snapshot: a cached snapshot could be handed out after Close")
	} else {
		a, b := invalCall, closeStop
		if _, r := reachableFrom(a, func(j ssa.Instruction) bool { return j == b }, nil, nil); !r {
			a, b = b, a
		}
		bad := false
		walk(after(a), walkOpts{visit: func(j ssa.Instruction, t *tracker) bool {
			if j == b {
				return true
			}
			if isMutexOp(j, "collection", "Unlock") {
				bad = true
				return true
			}
			return false
		}})
		why := "no Unlock of the collection lock between them"
		if bad {
			why = "the collection lock can be released between close(stopCh) and the invalidation of the cached snapshot: Snapshot() may hand out the cached snapshot of a closed collection"
		}
		o.add(c.fname(cl), "close(stopCh) and cache invalidation in one critical section", c.instrPos(closeStop), !bad, why)
	}
	fLatest := c.Field("collection", "latestSnapshot")
	nsl := c.Fn("(*collection).newSnapshotLOCKED")
	for _, f := range c.Funcs {
		for _, a := range fieldAccesses(f, func(v *types.Var) bool { return v == fLatest }) {
			if a.Kind != "store" || isNilConst(a.Val) {
				continue
			}
			ok := false
			for _, k := range callsToFn(f, nsl) {
				if g, _ := precededAndGuardedBy(f, k, a.Instr); g {
					ok = true
				}
			}
			why := "behind the nil-error edge of newSnapshotLOCKED (which contains the isClosed gate)"
			if !ok {
				why = "a snapshot is cached without having passed newSnapshotLOCKED's closed gate"
			}
			o.add(c.fname(f), "store latestSnapshot", c.instrPos(a.Instr), ok, why)
		}
	}
	return o.list
}

func isCloseOfField(i ssa.Instruction, fv *types.Var) bool {
	call, ok := i.(*ssa.Call)
	if !ok {
		return false
	}
	b, ok := call.Call.Value.(*ssa.Builtin)
	if !ok || b.Name() != "close" || len(call.Call.Args) != 1 {
		return false
	}
	f, _ := loadedField(call.Call.Args[0])
	return f == fv
}

func isCondCall(i ssa.Instruction, method string) (*types.Var, bool) {
	call, ok := i.(*ssa.Call)
	if !ok {
		return nil, false
	}
	sf := call.Call.StaticCallee()
	if sf == nil || sf.Name() != method || sf.Signature.Recv() == nil || typeName(sf.Signature.Recv().Type()) != "Cond" {
		return nil, false
	}
	fv, _ := loadedField(call.Call.Args[0])
	return fv, true
}

func ruleCL2(c *Ctx) []*Ob {
	o := newObs(c, "CL-2")
	isClosed := c.Fn("(*collection).isClosed")
	for _, f := range c.Funcs {
		fn := c.fname(f)
		eachInstr(f, func(i ssa.Instruction) {
			cf, ok := isCondCall(i, "Wait")
			if !ok {
				return
			}
			name := "?"
			if cf != nil {
				name = cf.Name()
			}
			construct := name + ".Wait() re-checks closedness"
			scc := sccOf(f, i.Block())
			if scc == nil {
				o.add(fn, construct, c.instrPos(i), false,
					"the Wait is not inside a loop: after a wake-up (a Broadcast wakes every waiter) the condition it waited for and isClosed() are not re-evaluated")
				return
			}
			// every cycle Wait -> Wait evaluates isClosed
			again := false
			walk(after(i), walkOpts{noInline: true,
				visit: func(j ssa.Instruction, t *tracker) bool {
					if j == i {
						again = true
						return true
					}
					return isCallOf(j, isClosed)
				},
				edge: func(from, to *ssa.BasicBlock, label string, cond ssa.Value, onTrue bool, t *tracker) bool {
					return !scc[to]
				}})
			if again {
				o.add(fn, construct, c.instrPos(i), false, "a woken waiter can go back to waiting without evaluating isClosed(): Close cannot release it")
				return
			}
			// some isClosed test in the loop has its closed edge leaving the loop
			exits := false
			closedE := closedEdge(isClosed, true)
			for b := range scc {
				iff, ok := b.Instrs[len(b.Instrs)-1].(*ssa.If)
				if !ok {
					continue
				}
				for k, s := range b.Succs {
					if closedE(b, s, iff.Cond, k == 0) && !scc[s] {
						exits = true
					}
				}
			}
			why := "the wait loop evaluates isClosed() on every iteration and leaves the loop when closed"
			if !exits {
				why = "no isClosed() test in the wait loop has its closed edge leaving the loop"
			}
			o.add(fn, construct, c.instrPos(i), exits, why)
		})
	}
	return o.list
}

func ruleCL3(c *Ctx) []*Ob {
	o := newObs(c, "CL-3")
	fStop := c.Field("collection", "stopCh")
	coll := c.Named("collection").Underlying().(*types.Struct)
	var conds []*types.Var
	for k := 0; k < coll.NumFields(); k++ {
		if typeName(coll.Field(k).Type()) == "Cond" {
			conds = append(conds, coll.Field(k))
		}
	}
	n := 0
	for _, f := range c.Funcs {
		fn := c.fname(f)
		eachInstr(f, func(i ssa.Instruction) {
			if !isCloseOfField(i, fStop) {
				return
			}
			n++
			for _, cf := range conds {
				bad := ""
				walk(after(i), walkOpts{visit: func(j ssa.Instruction, t *tracker) bool {
					if fv, ok := isCondCall(j, "Broadcast"); ok && fv == cf {
						return true
					}
					if isMutexOp(j, "collection", "Unlock") {
						bad = "the lock is released at " + c.instrPos(j) + " before " + cf.Name() + ".Broadcast()"
						return true
					}
					if _, ok := j.(*ssa.Return); ok {
						bad = "the function returns without " + cf.Name() + ".Broadcast()"
						return true
					}
					return false
				}})
				why := "Broadcast after close(stopCh), before the lock is released"
				if bad != "" {
					why = bad + ": goroutines waiting on that condition are never told that the collection closed"
				}
				o.add(fn, "close(stopCh) is followed by "+cf.Name()+".Broadcast()", c.instrPos(i), bad == "", why)
			}
		})
	}
	if n == 0 {
		o.add("(*collection).Close", "close(stopCh)", "?", false, "anchor lost: nothing closes stopCh")
	}
	return o.list
}

func ruleCL4(c *Ctx) []*Ob {
	o := newObs(c, "CL-4")
	fTop := c.Field("collection", "stackDirtyTop")
	eb := c.Fn("(*collection).ExecuteBatch")
	for _, f := range c.Funcs {
		fn := c.fname(f)
		for _, a := range fieldAccesses(f, func(v *types.Var) bool { return v == fTop }) {
			if a.Kind != "store" || isNilConst(a.Val) || isFreshAlloc(a.Base) {
				continue
			}
			if f != eb {
				o.add(fn, "store non-nil stackDirtyTop", c.instrPos(a.Instr), false, "only ExecuteBatch may install a top stack: this store bypasses the back-pressure test")
				continue
			}
			// reachable only via `top == nil` or !(len(top.a) >= max)
			skip := func(from, to *ssa.BasicBlock, cond ssa.Value, onTrue bool) bool {
				b, ok := cond.(*ssa.BinOp)
				if !ok {
					return false
				}
				switch b.Op {
				case token.EQL, token.NEQ:
					if isNilConst(b.Y) {
						if fv, _ := loadedField(b.X); fv == fTop {
							nilOnTrue := b.Op == token.EQL
							return nilOnTrue == onTrue
						}
					}
				case token.GEQ, token.GTR, token.LSS, token.LEQ:
					if isLenOfTopA(b.X, fTop) {
						// len >= max : pass the false edge; len < max : pass the true edge
						roomOnTrue := b.Op == token.LSS || b.Op == token.LEQ
						return roomOnTrue == onTrue
					}
				}
				return false
			}
			ok := mustPrecede(f, a.Instr, neverInstr, skip)
			why := "the new top is installed only after `stackDirtyTop == nil` or `len(stackDirtyTop.a) < maxPreMergerBatches` was observed on the way (wait loop exit)"
			if !ok {
				why = "the store of the new top is reachable without having (re-)observed room in stackDirtyTop: after a wake-up the bound is not re-checked, so more than MaxPreMergerBatches batches can pile up"
			}
			o.add(fn, "store non-nil stackDirtyTop", c.instrPos(a.Instr), ok, why)
		}
	}
	// the wait loop compares with the option
	bsdt := c.Fn("(*collection).buildStackDirtyTop")
	fSeg := c.FieldOpt("batch", "segment")
	n := 0
	eachInstr(bsdt, func(i ssa.Instruction) {
		call, ok := i.(*ssa.Call)
		if !ok {
			return
		}
		b, ok := call.Call.Value.(*ssa.Builtin)
		if !ok || b.Name() != "append" || len(call.Call.Args) < 2 {
			return
		}
		isSeg := backSlice(call.Call.Args[1], func(v ssa.Value) bool {
			fv, _ := loadedField(v)
			return fv != nil && fv == fSeg
		})
		if !isSeg {
			return
		}
		n++
		inLoop := sccOf(bsdt, call.Block()) != nil
		why := "the batch's segment is appended once, outside any loop"
		if inLoop {
			why = "the batch's segment is appended inside a loop: one ExecuteBatch can add several levels to the top stack"
		}
		o.add(c.fname(bsdt), "append(rv.a, b.segment)", c.instrPos(call), !inLoop, why)
	})
	if n == 0 {
		o.add(c.fname(bsdt), "append(rv.a, b.segment)", c.pos(bsdt.Pos()), false, "anchor lost: buildStackDirtyTop no longer appends the batch's segment")
	}
	return o.list
}

func isLenOfTopA(v ssa.Value, fTop *types.Var) bool {
	call, ok := v.(*ssa.Call)
	if !ok {
		return false
	}
	// a size measure computed by a segmentStack method on the top stack (e.g. top.height())
	if h := call.Call.StaticCallee(); h != nil && h.Signature.Recv() != nil && typeName(h.Signature.Recv().Type()) == "segmentStack" && len(call.Call.Args) > 0 {
		if bt, isB := h.Signature.Results().At(0).Type().Underlying().(*types.Basic); h.Signature.Results().Len() == 1 && isB && bt.Info()&types.IsInteger != 0 {
			for _, og := range origins(call.Call.Args[0]) {
				if fs, _ := loadedField(og); fs == fTop {
					return true
				}
			}
		}
		return false
	}
	bi, ok := call.Call.Value.(*ssa.Builtin)
	if !ok || bi.Name() != "len" {
		return false
	}
	fa, base := loadedField(call.Call.Args[0])
	if fa == nil || fa.Name() != "a" {
		return false
	}
	for _, og := range origins(base) {
		if fs, _ := loadedField(og); fs == fTop {
			return true
		}
	}
	return false
}

func collectionMethod(f *ssa.Function) bool {
	r := root(f)
	return r.Signature.Recv() != nil && typeName(r.Signature.Recv().Type()) == "collection"
}

func ruleCL5(c *Ctx) []*Ob {
	o := newObs(c, "CL-5")
	fStop := c.Field("collection", "stopCh")
	// proven-ready channels: closed by the exiting background goroutine, which exits once stopCh is closed (CL-6)
	tableOK := map[string]bool{"doneMergerCh": true, "donePersisterCh": true}
	for _, f := range c.Funcs {
		if !collectionMethod(f) {
			continue
		}
		fn := c.fname(f)
		eachInstr(f, func(i ssa.Instruction) {
			switch x := i.(type) {
			case *ssa.Send:
				sname := "local " + types.TypeString(x.Chan.Type(), shortQual)
				if fv, _ := loadedField(x.Chan); fv != nil {
					sname = fv.Name()
				}
				o.add(fn, "send on "+sname, c.instrPos(i), false,
					"a bare channel send: if nobody receives (collection closed, merger stopped or disabled) the caller blocks forever")
			case *ssa.UnOp:
				if x.Op != token.ARROW {
					return
				}
				name := "local " + types.TypeString(x.X.Type(), shortQual)
				if fv, _ := loadedField(x.X); fv != nil {
					if tableOK[fv.Name()] {
						o.trivial(fn, "receive from "+fv.Name(), c.instrPos(i), "table: the sender closes this channel once stopCh is closed")
						return
					}
					name = fv.Name()
				}
				o.add(fn, "receive from "+name, c.instrPos(i), false,
					"a bare channel receive: if the peer never answers (collection closed, merger stopped or disabled) the caller blocks forever")
			case *ssa.Select:
				if !x.Blocking {
					o.add(fn, "select (with default)", c.instrPos(i), true, "non-blocking select")
					return
				}
				hasStop := false
				var chans []string
				for _, st := range x.States {
					chans = append(chans, accessPath(st.Chan))
					if st.Dir == types.RecvOnly {
						if fv, _ := loadedField(st.Chan); fv == fStop {
							hasStop = true
						}
					}
				}
				why := "the select also offers <-m.stopCh"
				if !hasStop {
					why = "a blocking select without a <-m.stopCh case: it cannot be cancelled by Close"
				}
				o.add(fn, fmt.Sprintf("select over %d channels", len(x.States)), c.instrPos(i), hasStop, why)
			}
		})
	}
	return o.list
}

func ruleCL6(c *Ctx) []*Ob {
	o := newObs(c, "CL-6")
	isClosed := c.Fn("(*collection).isClosed")
	mwfw := c.Fn("(*collection).mergerWaitForWork")
	fStop := c.Field("collection", "stopCh")
	fCloseBeg := c.Field("CollectionStats", "TotCloseBeg")
	isStopCheck := func(i ssa.Instruction) bool {
		if isCallOf(i, isClosed) || isCallOf(i, mwfw) {
			return true
		}
		if sel, ok := i.(*ssa.Select); ok {
			for _, st := range sel.States {
				if st.Dir == types.RecvOnly {
					if fv, _ := loadedField(st.Chan); fv == fStop {
						return true
					}
				}
			}
		}
		if call, ok := i.(*ssa.Call); ok && isStaticCall(call, "sync/atomic", "LoadUint64") {
			if fa, ok := call.Call.Args[0].(*ssa.FieldAddr); ok && fieldAddrVar(fa) == fCloseBeg {
				return true
			}
		}
		return false
	}
	for _, fnn := range []string{"(*collection).runPersister", "(*collection).runMerger", "(*collection).idleMergerWaker"} {
		f := c.Fn(fnn)
		// blocks containing a stop check
		stopBlocks := map[*ssa.BasicBlock]bool{}
		for _, b := range f.Blocks {
			for _, i := range b.Instrs {
				if isStopCheck(i) {
					stopBlocks[b] = true
				}
			}
		}
		// any cycle avoiding the stop blocks?
		var badBlock *ssa.BasicBlock
		for _, b := range f.Blocks {
			if stopBlocks[b] {
				continue
			}
			// DFS from b avoiding stop blocks, looking for b
			seen := map[*ssa.BasicBlock]bool{}
			var dfs func(x *ssa.BasicBlock) bool
			dfs = func(x *ssa.BasicBlock) bool {
				for _, s := range x.Succs {
					if stopBlocks[s] {
						continue
					}
					if s == b {
						return true
					}
					if !seen[s] {
						seen[s] = true
						if dfs(s) {
							return true
						}
					}
				}
				return false
			}
			if dfs(b) {
				badBlock = b
				break
			}
		}
		nloops := 0
		for _, b := range f.Blocks {
			if sccOf(f, b) != nil {
				nloops++
			}
		}
		if nloops == 0 {
			o.add(fnn, "every loop cycle passes a stop check", c.pos(f.Pos()), false, "anchor lost: the background function has no loop")
			continue
		}
		if badBlock != nil {
			o.add(fnn, "every loop cycle passes a stop check", c.instrPos(badBlock.Instrs[0]), false,
				"a cycle of the background loop (through the block at "+c.instrPos(badBlock.Instrs[0])+") never evaluates isClosed()/stopCh: e.g. while the lower level keeps failing, the goroutine never notices Close and Close waits for it forever")
		} else {
			o.add(fnn, "every loop cycle passes a stop check", c.pos(f.Pos()), true, "every cycle evaluates isClosed(), a select on stopCh, mergerWaitForWork or TotCloseBeg")
		}
		// each stop check's stop edge leaves its loop
		for b := range stopBlocks {
			scc := sccOf(f, b)
			if scc == nil {
				continue
			}
			exits := false
			// follow forward inside the SCC from b until an If whose successor leaves the SCC; bounded search of 3 blocks
			frontier := []*ssa.BasicBlock{b}
			for depth := 0; depth < 4 && !exits; depth++ {
				var next []*ssa.BasicBlock
				for _, x := range frontier {
					for _, s := range x.Succs {
						if !scc[s] {
							exits = true
						} else {
							next = append(next, s)
						}
					}
				}
				frontier = next
			}
			if !exits {
				o.add(fnn, "stop check leads out of the loop", c.instrPos(b.Instrs[0]), false, "the result of the stop check does not lead out of the loop")
			}
		}
	}
	// CL-7 (part of CL-6): every cycle of the merger loop answers the pings it collected
	rm := c.Fn("(*collection).runMerger")
	reply := c.Fn("replyToPings")
	replyBlocks := map[*ssa.BasicBlock]bool{}
	for _, b := range rm.Blocks {
		for _, i := range b.Instrs {
			if isCallOf(i, reply) {
				if _, isDefer := i.(*ssa.Defer); !isDefer {
					replyBlocks[b] = true
				}
			}
		}
	}
	var unanswered *ssa.BasicBlock
	for _, b := range rm.Blocks {
		if replyBlocks[b] || sccOf(rm, b) == nil {
			continue
		}
		seen := map[*ssa.BasicBlock]bool{}
		var dfs func(x *ssa.BasicBlock) bool
		dfs = func(x *ssa.BasicBlock) bool {
			for _, s := range x.Succs {
				if replyBlocks[s] {
					continue
				}
				if s == b {
					return true
				}
				if !seen[s] {
					seen[s] = true
					if dfs(s) {
						return true
					}
				}
			}
			return false
		}
		if dfs(b) {
			unanswered = b
			break
		}
	}
	if len(replyBlocks) == 0 {
		o.add(c.fname(rm), "every merger cycle answers its pings", c.pos(rm.Pos()), false, "anchor lost: runMerger never calls replyToPings in its loop")
	} else if unanswered != nil {
		o.add(c.fname(rm), "every merger cycle answers its pings", c.instrPos(unanswered.Instrs[0]), false,
			"a cycle of the merger loop (e.g. the `continue` after a failed merge) does not pass replyToPings(): a synchronous NotifyMerger collected in that cycle is never answered and blocks until Close")
	} else {
		o.add(c.fname(rm), "every merger cycle answers its pings", c.pos(rm.Pos()), true, "every cycle of the loop passes replyToPings(pings)")
	}
	// mergerWaitForWork's blocking select offers stopCh and reports it
	okSel := false
	eachInstr(mwfw, func(i ssa.Instruction) {
		if sel, ok := i.(*ssa.Select); ok && sel.Blocking {
			for _, st := range sel.States {
				if fv, _ := loadedField(st.Chan); fv == fStop && st.Dir == types.RecvOnly {
					okSel = true
				}
			}
		}
	})
	why := "mergerWaitForWork's blocking select offers <-m.stopCh"
	if !okSel {
		why = "mergerWaitForWork no longer selects on stopCh: the merger cannot be stopped while it sleeps"
	}
	o.add(c.fname(mwfw), "blocking select offers stopCh", c.pos(mwfw.Pos()), okSel, why)
	return o.list
}

// mayReturnNilError: the returned error is not provably an error value
// (a package-level Err… variable, fmt.Errorf or errors.New).
func mayReturnNilError(v ssa.Value) bool {
	for _, og := range origins(v) {
		if isNilConst(og) {
			return true
		}
		if ld, ok := og.(*ssa.UnOp); ok && ld.Op == token.MUL {
			if _, isG := ld.X.(*ssa.Global); isG {
				continue
			}
		}
		if call := originCall(og); call != nil && (isStaticCall(call, "fmt", "Errorf") || isStaticCall(call, "errors", "New")) {
			continue
		}
		return true
	}
	return false
}

// ---------------------------------------------------------------- CL-8

func init() {
	register(&Rule{
		ID: "CL-8",
		Doc: "Close is final for the Store too: Store.Close drops the store's footer when the last reference goes, so a persistence round that arrives afterwards sees \"no footer yet\". " +
			"Every creation of a data file on behalf of an API call (a call of createNextFileLOCKED) is therefore reachable from every API root only behind the open edge of a test of Store.refs against zero " +
			"(`refs <= 0` leads to an error return): otherwise a late round starts a NEW file holding only that round, which is the newest at the next open - it is adopted and the file with everything persisted before is deleted (D27). " +
			"openStore, which builds the Store, is the constructor and excepted. Guard reachability over the call graph as for R-RO.",
		Props:      []string{"C16", "C04"},
		Floor:      1,
		Run:        ruleCL8,
		Exceptions: []string{"openStore: creates the first file of a store that is not published yet (the *Store is a fresh allocation of this function)"},
	})
}

// refsOpenEdge: the edge establishes Store.refs > 0 (the store is open).
func refsOpenEdge(fRefs *types.Var) func(from, to *ssa.BasicBlock, cond ssa.Value, onTrue bool) bool {
	return func(from, to *ssa.BasicBlock, cond ssa.Value, onTrue bool) bool {
		neg := false
		for {
			u, ok := cond.(*ssa.UnOp)
			if !ok || u.Op != token.NOT {
				break
			}
			neg = !neg
			cond = u.X
		}
		b, ok := cond.(*ssa.BinOp)
		if !ok {
			return false
		}
		op := b.Op
		var other ssa.Value
		if fv, _ := loadedField(b.X); fv == fRefs {
			other = b.Y
		} else if fv, _ := loadedField(b.Y); fv == fRefs {
			other = b.X
			op = flipCmp(op)
		} else {
			return false
		}
		k, isK := constInt(other)
		if !isK {
			return false
		}
		if onTrue == neg {
			op = negCmp(op)
		}
		// refs OP k holds on this edge
		switch {
		case op == token.GTR && k >= 0, op == token.GEQ && k >= 1:
			return true
		case op == token.NEQ && k == 0:
			return true // refs is never negative on a live store; != 0 is the open test some code uses
		}
		return false
	}
}

func ruleCL8(c *Ctx) []*Ob {
	o := newObs(c, "CL-8")
	fRefs := c.Field("Store", "refs")
	create := c.Fn("(*Store).createNextFileLOCKED")
	openStore := c.Fn("openStore")
	ga := &roAnalysis{c: c, memo: map[*ssa.Function]int{}, what: "Store.refs > 0 (store still open)"}
	open := refsOpenEdge(fRefs)
	ga.local = func(f *ssa.Function, instr ssa.Instruction) bool {
		return mustPrecede(f, instr, neverInstr, open)
	}
	n := 0
	for _, f := range c.Funcs {
		for _, k := range callsToFn(f, create) {
			if root(f) == openStore {
				o.trivial(c.fname(f), "call createNextFileLOCKED", c.instrPos(k), "constructor of the store (table exception)")
				continue
			}
			n++
			g, chain := ga.siteGuarded(f, k)
			ob := o.add(c.fname(f), "call createNextFileLOCKED", c.instrPos(k), g, "reachable from every API root only behind a test that the store still has references")
			if !g {
				ob.Why = "a store whose last reference was closed (footer dropped) can still start a new data file: " + strings.Join(chain, " -> ") +
					" - the file holds only the late round, is the newest at the next open and shadows everything persisted before"
				ob.Path = chain
			}
		}
	}
	if n == 0 {
		o.add("Store", "call createNextFileLOCKED", "-", false, "anchor lost: nobody creates data files")
	}
	return o.list
}
