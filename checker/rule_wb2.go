package main

// WB-2: SkipLowerLevel is honoured, both ways (C13: the write-back protocol; C01).

import (
	"go/token"
	"go/types"

	"golang.org/x/tools/go/ssa"
)

func init() {
	register(&Rule{
		ID: "WB-2",
		Doc: "The lower level is consulted exactly when the caller did not ask to skip it: every read of a stack's lower level (a Get / StartIterator whose receiver comes from " +
			"segmentStack.lowerLevelSnapshot) lies behind the SkipLowerLevel == false edge of the options it was handed - otherwise the snapshot handed to LowerLevelUpdate, which the " +
			"application iterates with SkipLowerLevel, replays the lower level's own content into it (and resolves merges twice); and in startIterator every path on which " +
			"SkipLowerLevel is false and a lower level exists starts the lower level's iterator before the heap is built - otherwise persisted keys are missing from iterations.",
		Props: []string{"C13", "C01", "C10"},
		Floor: 3,
		Run:   ruleWB2,
	})
}

func ruleWB2(c *Ctx) []*Ob {
	o := newObs(c, "WB-2")
	fLL := c.Field("segmentStack", "lowerLevelSnapshot")
	skipFields := map[*types.Var]bool{c.Field("ReadOptions", "SkipLowerLevel"): true, c.Field("IteratorOptions", "SkipLowerLevel"): true}
	skipEdgeIs := func(want bool) func(from, to *ssa.BasicBlock, cond ssa.Value, onTrue bool) bool {
		return func(from, to *ssa.BasicBlock, cond ssa.Value, onTrue bool) bool {
			neg := false
			for {
				u, ok := cond.(*ssa.UnOp)
				if !ok || u.Op != token.NOT {
					break
				}
				neg = !neg
				cond = u.X
			}
			fv, _ := loadedField(cond)
			if fv == nil || !skipFields[fv] {
				return false
			}
			val := onTrue
			if neg {
				val = !val
			}
			return val == want
		}
	}
	fromLL := func(v ssa.Value) bool {
		hit := false
		backSlice(v, func(w ssa.Value) bool {
			if fv, _ := loadedField(w); fv == fLL {
				hit = true
				return true
			}
			// llss := ss.lowerLevelSnapshot.addRef()
			if call, ok := w.(*ssa.Call); ok {
				if sf := call.Call.StaticCallee(); sf != nil && sf.Name() == "addRef" && len(call.Call.Args) > 0 {
					if fv, _ := loadedField(call.Call.Args[0]); fv == fLL {
						hit = true
						return true
					}
				}
			}
			return false
		})
		return hit
	}
	for _, f := range c.Funcs {
		if c.isHarness(f) || typeNameOfRecv(f) != "segmentStack" {
			continue
		}
		fn := c.fname(f)
		var llCalls []ssa.Instruction
		eachInstr(f, func(i ssa.Instruction) {
			call, ok := i.(*ssa.Call)
			if !ok {
				return
			}
			name := ""
			var recv ssa.Value
			if call.Call.IsInvoke() {
				name, recv = call.Call.Method.Name(), call.Call.Value
			} else if sf := call.Call.StaticCallee(); sf != nil && sf.Signature.Recv() != nil && len(call.Call.Args) > 0 {
				name, recv = sf.Name(), call.Call.Args[0]
			}
			if (name != "Get" && name != "StartIterator") || recv == nil || !fromLL(recv) {
				return
			}
			llCalls = append(llCalls, i)
			// does f take options with a SkipLowerLevel field at all?
			hasOpt := false
			for _, p := range f.Params {
				if tn := typeName(p.Type()); tn == "ReadOptions" || tn == "IteratorOptions" {
					hasOpt = true
				}
			}
			if !hasOpt {
				return
			}
			ok2 := mustPrecede(f, i, neverInstr, skipEdgeIs(false))
			why := "reachable only through the SkipLowerLevel == false edge"
			if !ok2 {
				why = "the lower level is read although the caller's options may say SkipLowerLevel: the snapshot the application writes back with SkipLowerLevel replays the lower level's own content (merge operands are folded twice, deleted keys come back)"
			}
			o.add(fn, "lower-level "+name+" behind SkipLowerLevel == false", c.instrPos(i), ok2, why)
		})
		// the other direction, for the iterator: before heap.Init the lower level's iterator was started
		if len(llCalls) == 0 {
			continue
		}
		eachInstr(f, func(i ssa.Instruction) {
			call, ok := i.(*ssa.Call)
			if !ok || !isStaticCall(call, "container/heap", "Init") {
				return
			}
			okAll := mustPrecede(f, i, func(j ssa.Instruction) bool {
				for _, k := range llCalls {
					if j == k {
						return true
					}
				}
				return false
			}, func(from, to *ssa.BasicBlock, cond ssa.Value, onTrue bool) bool {
				if skipEdgeIs(true)(from, to, cond, onTrue) {
					return true
				}
				// no lower level: the nil edge of a test of the lower-level snapshot (or of its retained copy)
				if b, isB := cond.(*ssa.BinOp); isB && (b.Op == token.EQL || b.Op == token.NEQ) && (isNilConst(b.X) || isNilConst(b.Y)) {
					v := b.X
					if isNilConst(v) {
						v = b.Y
					}
					if fromLL(v) {
						return (b.Op == token.EQL) == onTrue
					}
				}
				return false
			})
			why := "every path with SkipLowerLevel == false and a lower level starts the lower level's iterator before the heap is built"
			if !okAll {
				why = "the heap of cursors can be built without the lower level's iterator although SkipLowerLevel is false and a lower level exists: persisted keys are missing from the iteration (and from every merge that runs over it)"
			}
			o.add(fn, "lower-level iterator started before heap.Init unless skipped", c.instrPos(i), okAll, why)
		})
	}
	return o.list
}

func typeNameOfRecv(f *ssa.Function) string {
	r := root(f)
	if r.Signature.Recv() == nil {
		return ""
	}
	return typeName(r.Signature.Recv().Type())
}
