package main

// R-COW (published stacks and segments are immutable), R-SORT (sorted
// before read), R-ORDER (newest shadows oldest): C01, C02, C10, C17, C19.

import (
	"fmt"
	"go/token"
	"go/types"
	"os"
	"sort"
	"strings"

	"golang.org/x/tools/go/ssa"
)

func init() {
	register(&Rule{
		ID: "R-COW",
		Doc: "Copy-on-write: every write to segmentStack.a (field store, element store, append whose result is stored back), to segmentStack.childSegStacks (store or map update) " +
			"hits a stack that is still under construction: allocated in the function, returned fresh by a callee, a child looked up in such a stack, or a parameter for which every call site " +
			"passes such a value (builder parameter, call-graph fixpoint). Writes to segment.kvs / segment.buf happen only in the batch-building methods (mutate, mutateEx, Alloc, Swap), in " +
			"constructors and loaders; sort.Sort on a segment is reached only through RequestSort's single ticket or batch.doSort before publication.",
		Props: []string{"C01", "C02", "C17", "C19"},
		Floor: 23,
		Run:   ruleCow,
	})
	register(&Rule{
		ID: "R-SORT",
		Doc: "Sorted before read: every call of Segment.Get / Segment.Cursor on an element of a stack's `a` is preceded on every path by ensureSorted on that stack; every path that hands segments " +
			"to a persister (persist -> persistSegments, compact -> mergeSegStacks) is preceded by ensureFullySorted on the incoming stack; in RequestSort the sort runs only behind the ticket " +
			"received from needSorterCh and is followed by close(waitSortedCh).",
		Props: []string{"C01", "C17", "C19"},
		Floor: 3,
		Run:   ruleSort,
	})
	register(&Rule{
		ID: "R-ORDER",
		Doc: "Newest shadows oldest (age rank stackClean < stackDirtyBase < stackDirtyMid < stackDirtyTop, from the struct documentation): in snapshot() the appendChildStacks calls occur along " +
			"every path in non-decreasing rank, after the lower-level snapshot was attached; in collection.get the per-section Gets occur in strictly decreasing rank and the lower level is " +
			"consulted last. The two readers thus agree on which section shadows which.",
		Props: []string{"C01", "C10"},
		Floor: 5,
		Run:   ruleOrder,
	})
}

// builderAnalysis decides whether a value denotes an object still under construction.
type builderAnalysis struct {
	c     *Ctx
	param map[*ssa.Parameter]int // 0 unknown, 1 yes, 2 no, 3 in progress
	fresh map[*ssa.Function]int
	val   map[ssa.Value]int
}

func newBuilderAnalysis(c *Ctx) *builderAnalysis {
	return &builderAnalysis{c: c, param: map[*ssa.Parameter]int{}, fresh: map[*ssa.Function]int{}, val: map[ssa.Value]int{}}
}

func (ba *builderAnalysis) isBuilder(v ssa.Value, depth int) bool {
	if depth > 60 {
		return false
	}
	switch ba.val[v] {
	case 1, 3:
		return true
	case 2:
		return false
	}
	ba.val[v] = 3
	r := ba.isBuilderUncached(v, depth)
	if r {
		ba.val[v] = 1
	} else {
		ba.val[v] = 2
	}
	return r
}

func (ba *builderAnalysis) isBuilderUncached(v ssa.Value, depth int) bool {
	switch x := v.(type) {
	case *ssa.Alloc:
		return true
	case *ssa.Phi:
		for _, e := range x.Edges {
			if isNilConst(e) {
				continue
			}
			if !ba.isBuilder(e, depth+1) {
				return false
			}
		}
		return true
	case *ssa.TypeAssert:
		return ba.isBuilder(x.X, depth+1)
	case *ssa.MakeInterface:
		return ba.isBuilder(x.X, depth+1)
	case *ssa.ChangeInterface:
		return ba.isBuilder(x.X, depth+1)
	case *ssa.Extract:
		switch t := x.Tuple.(type) {
		case *ssa.Call:
			return ba.callResultBuilder(t, x.Index, depth)
		case *ssa.TypeAssert:
			if x.Index == 0 {
				return ba.isBuilder(t.X, depth+1)
			}
		case *ssa.Lookup: // child looked up in a builder's map
			if x.Index == 0 {
				_, base := loadedField(t.X)
				return base != nil && ba.isBuilder(base, depth+1)
			}
		}
	case *ssa.Lookup:
		_, base := loadedField(x.X)
		return base != nil && ba.isBuilder(base, depth+1)
	case *ssa.Call:
		return ba.callResultBuilder(x, 0, depth)
	case *ssa.Parameter:
		return ba.paramBuilder(x, depth)
	case *ssa.FreeVar:
		// captured pointer variable: look at what the parent stored
		for _, st := range freeVarStores(x) {
			if !isNilConst(st.Val) && !ba.isBuilder(st.Val, depth+1) {
				return false
			}
		}
		return true
	case *ssa.UnOp:
		if x.Op == token.MUL {
			switch a := x.X.(type) {
			case *ssa.Alloc:
				n, ok := 0, true
				if refs := a.Referrers(); refs != nil {
					for _, r := range *refs {
						if st, isSt := r.(*ssa.Store); isSt && st.Addr == ssa.Value(a) {
							n++
							if !isNilConst(st.Val) && !ba.isBuilder(st.Val, depth+1) {
								ok = false
							}
						}
					}
				}
				return n > 0 && ok
			case *ssa.FreeVar:
				sts := freeVarStores(a)
				if len(sts) == 0 {
					return false
				}
				for _, st := range sts {
					if !isNilConst(st.Val) && !ba.isBuilder(st.Val, depth+1) {
						return false
					}
				}
				return true
			}
		}
	}
	return false
}

func (ba *builderAnalysis) callResultBuilder(call *ssa.Call, idx int, depth int) bool {
	callee := call.Call.StaticCallee()
	if callee == nil || callee.Blocks == nil || callee.Pkg != ba.c.Moss {
		return false
	}
	ok := true
	n := 0
	eachInstr(callee, func(i ssa.Instruction) {
		r, isR := i.(*ssa.Return)
		if !isR || idx >= len(r.Results) || !ok {
			return
		}
		n++
		for _, og := range origins(r.Results[idx]) {
			if isNilConst(og) {
				continue
			}
			if p, isP := og.(*ssa.Parameter); isP {
				// returns its own parameter: as fresh as the argument
				for k, q := range callee.Params {
					if q == p {
						if k >= len(call.Call.Args) || !ba.isBuilder(call.Call.Args[k], depth+1) {
							ok = false
						}
					}
				}
				continue
			}
			if c2, isC := og.(*ssa.Call); isC && c2.Call.StaticCallee() == callee {
				continue // recursion
			}
			if e, isE := og.(*ssa.Extract); isE {
				if c2, isC := e.Tuple.(*ssa.Call); isC && c2.Call.StaticCallee() == callee {
					continue
				}
			}
			if !ba.isBuilder(og, depth+1) {
				ok = false
			}
		}
	})
	return ok && n > 0
}

func (ba *builderAnalysis) paramBuilder(p *ssa.Parameter, depth int) bool {
	switch ba.param[p] {
	case 1, 3:
		return true
	case 2:
		return false
	}
	ba.param[p] = 3
	f := p.Parent()
	idx := -1
	for k, q := range f.Params {
		if q == p {
			idx = k
		}
	}
	ok := idx >= 0
	sites := ba.c.Callers(f)
	if len(sites) == 0 || isExportedRoot(f) {
		ok = false
	}
	for _, s := range sites {
		if !ok {
			break
		}
		args := s.Instr.Common().Args
		k := idx
		if s.Instr.Common().IsInvoke() {
			k = idx - 1 // receiver is not in Args for invoke
			if k < 0 {
				if !ba.isBuilder(s.Instr.Common().Value, depth+1) {
					ok = false
				}
				continue
			}
		}
		if k >= len(args) || !ba.isBuilder(args[k], depth+1) {
			ok = false
		}
	}
	if ok {
		ba.param[p] = 1
	} else {
		ba.param[p] = 2
	}
	return ok
}

func ruleCow(c *Ctx) []*Ob {
	o := newObs(c, "R-COW")
	ba := newBuilderAnalysis(c)
	fA := c.Field("segmentStack", "a")
	fCh := c.Field("segmentStack", "childSegStacks")
	fKvs := c.Field("segment", "kvs")
	fBuf := c.Field("segment", "buf")
	segWriters := map[string]bool{
		"(*segment).mutate": true, "(*segment).mutateEx": true, "(*segment).Alloc": true, "(*segment).Swap": true,
		"(*segment).readyDeferredSort": true, // before publication: ExecuteBatch readies the batch ahead of the lock
		"(*segment).buildIndex":        true, // loader: right after loadBasicSegment, before the footer is published
	}
	segT := c.Named("segment").Underlying().(*types.Struct)
	isSegField := func(v *types.Var) bool {
		for k := 0; k < segT.NumFields(); k++ {
			if segT.Field(k) == v {
				return true
			}
		}
		return false
	}
	for _, f := range c.Funcs {
		if strings.HasSuffix(c.Fset.Position(f.Pos()).Filename, "smat.go") {
			continue
		}
		fn := c.fname(f)
		for _, a := range fieldAccesses(f, func(v *types.Var) bool { return v == fA || v == fCh }) {
			if !a.Write {
				continue
			}
			construct := fmt.Sprintf("%s segmentStack.%s", a.Kind, a.Field.Name())
			if ba.isBuilder(a.Base, 0) {
				o.add(fn, construct, c.instrPos(a.Instr), true, "the stack written is still under construction ("+accessPath(a.Base)+")")
			} else {
				o.add(fn, construct, c.instrPos(a.Instr), false,
					"in-place write to a segment stack that may already be published ("+accessPath(a.Base)+"): snapshots and iterators holding it see their contents change, and unsynchronised readers race with the write")
			}
		}
		_, _ = fKvs, fBuf
		for _, a := range fieldAccesses(f, isSegField) {
			if !a.Write {
				continue
			}
			construct := fmt.Sprintf("%s segment.%s", a.Kind, a.Field.Name())
			segWritersSet := map[string]string{}
			for k := range segWriters {
				segWritersSet[k] = ""
			}
			switch {
			case segWriters[fn]:
				o.add(fn, construct, c.instrPos(a.Instr), true, "batch-building method (runs before the segment is published, or under the sort ticket)")
			case onlyCalledFrom(c, f, segWritersSet, 2) != "":
				o.add(fn, construct, c.instrPos(a.Instr), true, "helper called only from the batch-building method "+onlyCalledFrom(c, f, segWritersSet, 2))
			case isFreshAlloc(a.Base):
				o.add(fn, construct, c.instrPos(a.Instr), true, "constructor / loader: the segment is being created")
			default:
				o.add(fn, construct, c.instrPos(a.Instr), false, "a field of a (possibly published) segment is written outside the batch-building methods, readyDeferredSort, the loader and constructors: published segments are read without synchronisation and must be immutable")
			}
		}
	}
	// append must not extend the backing array of a published stack's `a`
	for _, f := range c.Funcs {
		if strings.HasSuffix(c.Fset.Position(f.Pos()).Filename, "smat.go") {
			continue
		}
		fn := c.fname(f)
		eachInstr(f, func(i ssa.Instruction) {
			call, ok := i.(*ssa.Call)
			if !ok {
				return
			}
			bi, ok := call.Call.Value.(*ssa.Builtin)
			if !ok || bi.Name() != "append" || len(call.Call.Args) == 0 {
				return
			}
			var base ssa.Value
			backSlice(call.Call.Args[0], func(v ssa.Value) bool {
				if fv, b := loadedField(v); fv == fA {
					base = b
					return true
				}
				return false
			})
			if base == nil {
				return
			}
			if ba.isBuilder(base, 0) {
				o.add(fn, "append(<stack>.a, …)", c.instrPos(i), true, "appends to the slice of a stack under construction")
			} else {
				o.add(fn, "append(<stack>.a, …)", c.instrPos(i), false,
					"append on the `a` slice of a stack that may be published ("+accessPath(base)+"): spare capacity of the shared backing array is overwritten, so two stacks built from the same base clobber each other's top segment")
			}
		})
	}
	// a new stack must not alias a published stack's slice and then append to it
	for _, f := range c.Funcs {
		fn := c.fname(f)
		for _, a := range fieldAccesses(f, func(v *types.Var) bool { return v == fA }) {
			if a.Kind != "store" {
				continue
			}
			var src ssa.Value
			aliasOnly := true
			backSlice(a.Val, func(v ssa.Value) bool {
				if call, ok := v.(*ssa.Call); ok {
					if _, isB := call.Call.Value.(*ssa.Builtin); isB {
						aliasOnly = false // append / make produce (or may produce) a new array
						return true
					}
				}
				if _, ok := v.(*ssa.MakeSlice); ok {
					aliasOnly = false
					return true
				}
				if fv, b := loadedField(v); fv == fA {
					src = b
					return true
				}
				return false
			})
			if src == nil || !aliasOnly || ba.isBuilder(src, 0) {
				continue
			}
			// is the aliased slice appended to afterwards?
			appended := false
			eachInstr(f, func(i ssa.Instruction) {
				call, ok := i.(*ssa.Call)
				if !ok {
					return
				}
				bi, ok := call.Call.Value.(*ssa.Builtin)
				if !ok || bi.Name() != "append" {
					return
				}
				fv, b := loadedField(call.Call.Args[0])
				if fv == fA && sameValue(b, a.Base) {
					if _, r := reachableFrom(a.Instr, func(j ssa.Instruction) bool { return j == i }, nil, nil); r {
						appended = true
					}
				}
			})
			if appended {
				o.add(fn, "alias of a published stack's slice, then append", c.instrPos(a.Instr), false,
					"the new stack's `a` aliases the slice of "+accessPath(src)+" and is then appended to: the append can write into the shared backing array under readers of the old stack")
			}
		}
	}
	// who may sort
	doSort := c.Fn("(*segment).doSort")
	for _, f := range c.Funcs {
		fn := c.fname(f)
		eachInstr(f, func(i ssa.Instruction) {
			ci, ok := i.(ssa.CallInstruction)
			if !ok {
				return
			}
			if isStaticCall(ci, "sort", "Sort") || isStaticCall(ci, "sort", "Stable") {
				arg := ci.Common().Args[0]
				isSeg := backSlice(arg, func(v ssa.Value) bool { return typeName(v.Type()) == "segment" })
				if !isSeg {
					return
				}
				ok2 := f == doSort
				why := "the only in-place sort of a segment"
				if !ok2 {
					why = "a segment is sorted in place outside (*segment).doSort, i.e. outside the single-sorter ticket"
				}
				o.add(fn, "sort.Sort(segment)", c.instrPos(i), ok2, why)
			}
			if ci.Common().StaticCallee() == doSort {
				allowed := fn == "(*segment).RequestSort" || fn == "(*batch).doSort"
				why := "reached through RequestSort's ticket or batch.doSort before publication"
				if !allowed {
					why = "doSort is called from " + fn + ": a published segment could be sorted concurrently with readers"
				}
				o.add(fn, "call (*segment).doSort", c.instrPos(i), allowed, why)
			}
		})
	}
	// batch.doSort is only called before publication: from ExecuteBatch ahead of the Lock, or recursively
	bds := c.Fn("(*batch).doSort")
	for _, s := range c.Callers(bds) {
		fn := c.fname(s.Caller)
		switch fn {
		case "(*batch).doSort":
			o.trivial(fn, "call (*batch).doSort", c.instrPos(s.Instr), "recursion over child batches")
		case "(*collection).ExecuteBatch":
			// must precede the store of the new top
			fTop := c.Field("collection", "stackDirtyTop")
			ok := true
			for _, a := range fieldAccesses(s.Caller, func(v *types.Var) bool { return v == fTop }) {
				if a.Kind == "store" && !isNilConst(a.Val) {
					if _, r := reachableFrom(a.Instr, func(i ssa.Instruction) bool { return i == s.Instr.(ssa.Instruction) }, nil, nil); r {
						ok = false
					}
				}
			}
			why := "the batch is sorted before it is installed as the new top"
			if !ok {
				why = "the batch can be sorted after it was published in stackDirtyTop"
			}
			o.add(fn, "call (*batch).doSort", c.instrPos(s.Instr), ok, why)
		default:
			o.add(fn, "call (*batch).doSort", c.instrPos(s.Instr), false, "batch.doSort is called from "+fn+": sorting outside the pre-publication point")
		}
	}
	return o.list
}

// ---------------------------------------------------------------- R-SORT

func ruleSort(c *Ctx) []*Ob {
	o := newObs(c, "R-SORT")
	ensure := c.Fn("(*segmentStack).ensureSorted")
	ensureFull := c.Fn("(*segmentStack).ensureFullySorted")
	fA := c.Field("segmentStack", "a")
	for _, f := range c.Funcs {
		if f == ensure {
			continue
		}
		fn := c.fname(f)
		eachInstr(f, func(i ssa.Instruction) {
			call, ok := i.(*ssa.Call)
			if !ok || !call.Call.IsInvoke() || typeName(call.Call.Value.Type()) != "Segment" {
				return
			}
			m := call.Call.Method.Name()
			if m != "Get" && m != "Cursor" {
				return
			}
			// the stack whose element this is
			var stack ssa.Value
			backSlice(call.Call.Value, func(v ssa.Value) bool {
				if ld, ok := v.(*ssa.UnOp); ok && ld.Op == token.MUL {
					if ia, ok := ld.X.(*ssa.IndexAddr); ok {
						if fv, base := loadedField(ia.X); fv == fA {
							stack = base
							return true
						}
					}
				}
				if ix, ok := v.(*ssa.Index); ok {
					if fv, base := loadedField(ix.X); fv == fA {
						stack = base
						return true
					}
				}
				return false
			})
			if stack == nil {
				return
			}
			ok2 := mustPrecede(f, call, func(j ssa.Instruction) bool {
				k, isC := j.(*ssa.Call)
				return isC && k.Call.StaticCallee() == ensure && sameValue(k.Call.Args[0], stack)
			}, nil)
			why := "ensureSorted on the same stack precedes the read on every path"
			if !ok2 {
				// a helper that reads one segment of a stack it is handed (loop body extracted): the obligation
				// moves to its call sites - every one of them must be preceded by ensureSorted on the argument
				if pi := paramIndexOf(f, stack); pi >= 0 && !isExportedRoot(f) && f.Parent() == nil {
					sites := c.Callers(f)
					all := len(sites) > 0
					for _, cs := range sites {
						cc := cs.Instr.Common()
						if cc.StaticCallee() != f || pi >= len(cc.Args) {
							all = false
							continue
						}
						arg := cc.Args[pi]
						caller := cs.Instr.Parent()
						if !mustPrecede(caller, cs.Instr, func(j ssa.Instruction) bool {
							k, isC := j.(*ssa.Call)
							return isC && k.Call.StaticCallee() == ensure && sameValue(k.Call.Args[0], arg)
						}, nil) {
							all = false
						}
					}
					if all {
						ok2 = true
						why = "the helper reads a segment of the stack it is handed; every call site is preceded by ensureSorted on that stack"
					}
				}
			}
			if !ok2 {
				why = "a segment of the stack is searched without a preceding ensureSorted: with DeferredSort the binary search runs over unsorted keys (and races with the sorter)"
			}
			o.add(fn, "Segment."+m+" on "+accessPath(stack)+".a[i]", c.instrPos(call), ok2, why)
		})
	}
	// before persisting
	type pre struct{ fn, callee string }
	for _, p := range []pre{{"(*Store).persist", "(*Store).persistSegments"}, {"(*Store).compact", "(*Store).mergeSegStacks"}} {
		f := c.Fn(p.fn)
		for _, k := range callsToFn(f, c.Fn(p.callee)) {
			// the stack argument: of type *segmentStack
			var stackArg ssa.Value
			for _, a := range k.Call.Args[1:] {
				if typeName(a.Type()) == "segmentStack" {
					stackArg = a
				}
			}
			walkDebug = os.Getenv("MOSSLINT_DEBUG") != "" && p.fn == "(*Store).persist"
			defer func() { walkDebug = false }()
			ok := stackArg != nil && mustPrecede(f, k, func(j ssa.Instruction) bool {
				e, isC := j.(*ssa.Call)
				hit := isC && e.Call.StaticCallee() == ensureFull && sameValue(e.Call.Args[0], stackArg)
				if hit && os.Getenv("MOSSLINT_DEBUG") != "" {
					fmt.Fprintf(os.Stderr, "DEBUG via hit at %s in %s: arg=%s (%T) stackArg=%s (%T)\n", c.instrPos(j), j.Parent(), e.Call.Args[0], e.Call.Args[0], stackArg, stackArg)
					for _, og := range origins(e.Call.Args[0]) {
						fmt.Fprintf(os.Stderr, "   origin(arg): %s %T in %v\n", og, og, og.Parent())
					}
					for _, og := range origins(stackArg) {
						fmt.Fprintf(os.Stderr, "   origin(stackArg): %s %T in %v\n", og, og, og.Parent())
					}
				}
				return hit
			}, nil)
			why := "ensureFullySorted on the incoming stack precedes " + p.callee
			if !ok {
				why = "segments are handed to the persister without ensureFullySorted: with DeferredSort unsorted segments are written to the file"
			}
			o.add(p.fn, "ensureFullySorted before "+c.Fn(p.callee).Name(), c.instrPos(k), ok, why)
		}
	}
	// the ticket
	rs := c.Fn("(*segment).RequestSort")
	doSort := c.Fn("(*segment).doSort")
	fNeed := c.Field("segment", "needSorterCh")
	fWait := c.Field("segment", "waitSortedCh")
	for _, k := range callsToFn(rs, doSort) {
		// reachable only via the true edge of a value received from needSorterCh
		ticketEdge := func(from, to *ssa.BasicBlock, cond ssa.Value, onTrue bool) bool {
			if !onTrue {
				return false
			}
			return backSlice(cond, func(v ssa.Value) bool {
				u, ok := v.(*ssa.UnOp)
				if !ok || u.Op != token.ARROW {
					return false
				}
				fv, _ := loadedField(u.X)
				return fv == fNeed
			})
		}
		ok := mustPrecede(rs, k, neverInstr, ticketEdge)
		why := "doSort runs only for the goroutine that received the single ticket from needSorterCh"
		if !ok {
			why = "doSort is reachable without holding the ticket from needSorterCh: two goroutines can sort the same segment at once"
		}
		o.add(c.fname(rs), "doSort behind the ticket", c.instrPos(k), ok, why)
		// close(waitSortedCh) follows
		closed := false
		walk(after(k), walkOpts{visit: func(j ssa.Instruction, t *tracker) bool {
			if isCloseOfField(j, fWait) {
				return true
			}
			if _, isRet := j.(*ssa.Return); isRet {
				closed = true // reached a return without closing
				return true
			}
			return false
		}})
		why2 := "close(waitSortedCh) follows the sort on every path: waiters are released"
		if closed {
			why2 = "a return is reachable after the sort without close(waitSortedCh): synchronous waiters block forever"
		}
		o.add(c.fname(rs), "close(waitSortedCh) after doSort", c.instrPos(k), !closed, why2)
	}
	return o.list
}

// ---------------------------------------------------------------- R-ORDER

var sectionRank = map[string]int{"stackClean": 0, "stackDirtyBase": 1, "stackDirtyMid": 2, "stackDirtyTop": 3}

func sectionOf(c *Ctx, v ssa.Value) string {
	name := ""
	for _, og := range origins(v) {
		if fv, _ := loadedField(og); fv != nil && isSectionField(c, fv) {
			if _, ranked := sectionRank[fv.Name()]; ranked {
				name = fv.Name()
			}
		}
	}
	return name
}

func ruleOrder(c *Ctx) []*Ob {
	o := newObs(c, "R-ORDER")
	snap := c.Fn("(*collection).snapshot")
	acs := c.Fn("(*collection).appendChildStacks")
	type site struct {
		call *ssa.Call
		sect string
	}
	var sites []site
	for _, k := range callsToFn(snap, acs) {
		if s := sectionOf(c, k.Call.Args[2]); s != "" {
			sites = append(sites, site{k, s})
		}
	}
	if len(sites) < 4 {
		o.add(c.fname(snap), "appendChildStacks per section", c.pos(snap.Pos()), false,
			fmt.Sprintf("snapshot() appends only %d of the four sections", len(sites)))
	}
	for _, s1 := range sites {
		bad := ""
		for _, s2 := range sites {
			if sectionRank[s2.sect] >= sectionRank[s1.sect] || s1.call == s2.call {
				continue
			}
			if _, r := reachableFrom(s1.call, func(i ssa.Instruction) bool { return i == ssa.Instruction(s2.call) }, nil, nil); r {
				bad = fmt.Sprintf("%s (older) is appended after %s (newer) at %s", s2.sect, s1.sect, c.instrPos(s2.call))
			}
		}
		why := "no older section is appended after it: newer segments end up higher in the stack"
		if bad != "" {
			why = bad + ": in the combined stack the older section's entries shadow the newer ones"
		}
		o.add(c.fname(snap), "append "+s1.sect+" in age order", c.instrPos(s1.call), bad == "", why)
	}
	// the lower level is attached before any section is appended
	fLL := c.Field("segmentStack", "lowerLevelSnapshot")
	var llStore ssa.Instruction
	for _, a := range fieldAccesses(snap, func(v *types.Var) bool { return v == fLL }) {
		if a.Kind == "store" {
			llStore = a.Instr
		}
	}
	if llStore != nil && len(sites) > 0 {
		ok := true
		for _, s := range sites {
			if _, r := reachableFrom(s.call, func(i ssa.Instruction) bool { return i == llStore }, nil, nil); r {
				ok = false
			}
		}
		why := "the lower-level snapshot is attached before the sections are stacked on top of it"
		if !ok {
			why = "the lower-level snapshot is attached after a section was appended"
		}
		o.add(c.fname(snap), "lower level attached first", c.instrPos(llStore), ok, why)
	}
	// ORDER-2: a snapshot() whose callback installs the result as section S must skip every older section
	fSkip := map[string]string{"stackClean": "snapshotSkipClean", "stackDirtyBase": "snapshotSkipDirtyBase", "stackDirtyMid": "snapshotSkipDirtyMid", "stackDirtyTop": "snapshotSkipDirtyTop"}
	for _, s := range c.Callers(snap) {
		args := s.Instr.Common().Args
		if len(args) < 4 {
			continue
		}
		var cb *ssa.Function
		if mc, ok := args[2].(*ssa.MakeClosure); ok {
			cb = mc.Fn.(*ssa.Function)
		}
		if cb == nil || len(cb.Params) == 0 {
			continue
		}
		// which section does the callback store its parameter into?
		target := ""
		for _, a := range fieldAccesses(cb, func(v *types.Var) bool { return isSectionField(c, v) }) {
			if a.Kind == "store" && a.Val == ssa.Value(cb.Params[0]) {
				target = a.Field.Name()
			}
		}
		if target == "" {
			continue
		}
		skip, isConst := ssaConstU64(args[1])
		fn := c.fname(s.Caller)
		if !isConst {
			o.add(fn, "snapshot skip flags for result installed as "+target, c.instrPos(s.Instr), false, "the skip argument is not a constant")
			continue
		}
		missing := []string{}
		for sect, rank := range sectionRank {
			if rank < sectionRank[target] {
				if bit := constU64(c, fSkip[sect]); skip&bit == 0 {
					missing = append(missing, sect)
				}
			}
		}
		sort.Strings(missing)
		why := "every section older than " + target + " is skipped: the stack installed as " + target + " contains nothing that belongs below it"
		if len(missing) > 0 {
			why = "the stack installed as " + target + " also contains " + strings.Join(missing, ", ") + " (older): once it sits above the sections in between, stale values shadow newer ones (and with a persist in flight the stale value is persisted)"
		}
		o.add(fn, "snapshot skip flags for result installed as "+target, c.instrPos(s.Instr), len(missing) == 0, why)
	}
	// collection.get
	get := c.Fn("(*collection).get")
	ssGet := c.Fn("(*segmentStack).Get")
	var gets []site
	for _, k := range callsToFn(get, ssGet) {
		if s := sectionOf(c, k.Call.Args[0]); s != "" {
			gets = append(gets, site{k, s})
		}
	}
	if len(gets) < 4 {
		o.add(c.fname(get), "Get per section", c.pos(get.Pos()), len(gets) == 0,
			fmt.Sprintf("collection.get consults %d of the four sections directly", len(gets)))
	}
	for _, g1 := range gets {
		bad := ""
		for _, g2 := range gets {
			if sectionRank[g2.sect] <= sectionRank[g1.sect] || g1.call == g2.call {
				continue
			}
			if _, r := reachableFrom(g1.call, func(i ssa.Instruction) bool { return i == ssa.Instruction(g2.call) }, nil, nil); r {
				bad = fmt.Sprintf("%s (newer) is consulted after %s (older) at %s", g2.sect, g1.sect, c.instrPos(g2.call))
			}
		}
		why := "no newer section is consulted after it"
		if bad != "" {
			why = bad + ": an older value can win over a newer one, unlike in snapshot()"
		}
		o.add(c.fname(get), "consult "+g1.sect+" in age order", c.instrPos(g1.call), bad == "", why)
	}
	// lower level last
	swGet := c.Fn("(*SnapshotWrapper).Get")
	for _, k := range callsToFn(get, swGet) {
		bad := ""
		for _, g := range gets {
			if _, r := reachableFrom(k, func(i ssa.Instruction) bool { return i == ssa.Instruction(g.call) }, nil, nil); r {
				bad = g.sect
			}
		}
		why := "the lower level is consulted after every section"
		if bad != "" {
			why = "section " + bad + " is consulted after the lower level"
		}
		o.add(c.fname(get), "lower level consulted last", c.instrPos(k), bad == "", why)
	}
	return o.list
}

func init() {
	register(&Rule{
		ID: "SORT-2",
		Doc: "All-of accumulation: a boolean that starts true before a loop, is updated inside it and is read after it (ensureSorted's `sorted`, batch.RequestSort's `sorted`) answers 'did every " +
			"iteration succeed'; its update must be sticky - once false it stays false (`acc = acc && x`, in SSA a phi of the constant false on the edge where the old value is false). " +
			"An update that forgets the old value lets the last element speak for all: ensureSorted then skips the blocking second pass while an earlier segment is still unsorted, and readers " +
			"binary-search an unsorted segment.",
		Props: []string{"C01", "C03", "C17", "C19"},
		Floor: 1,
		Run:   ruleSort2,
	})
}

func ruleSort2(c *Ctx) []*Ob {
	o := newObs(c, "SORT-2")
	for _, f := range c.Funcs {
		if c.isHarness(f) {
			continue
		}
		fn := c.fname(f)
		for _, b := range f.Blocks {
			for _, ins := range b.Instrs {
				phi, ok := ins.(*ssa.Phi)
				if !ok {
					break
				}
				bt, isBasic := phi.Type().Underlying().(*types.Basic)
				if !isBasic || bt.Kind() != types.Bool || len(phi.Edges) != 2 {
					continue
				}
				// loop header: one edge from a block dominated by b (back edge), the other the initial value
				var init, back ssa.Value
				for k, e := range phi.Edges {
					if b.Dominates(b.Preds[k]) {
						back = e
					} else {
						init = e
					}
				}
				if init == nil || back == nil {
					continue
				}
				if v, isK := constBool(init); isK && !v {
					continue // starts false: an any-of / found flag, not an all-of accumulator
				}
				if _, isK := back.(*ssa.Const); isK {
					continue // a 'first iteration' flag
				}
				// read after the loop?
				usedOutside := false
				if refs := phi.Referrers(); refs != nil {
					for _, r := range *refs {
						if scc := sccOf(f, b); r.Block() != nil && scc != nil && !scc[r.Block()] {
							usedOutside = true
						}
						if _, isIf := r.(*ssa.If); isIf && r.Block() == b {
							// the loop condition itself
						}
					}
				}
				// sticky: back = phi'[false on the edge where the old value (or the new test) is false, other]
				sticky := false
				if bp, isPhi := back.(*ssa.Phi); isPhi {
					hasFalse, dependsOnOld := false, false
					for k, e := range bp.Edges {
						if v, isK := constBool(e); isK && !v {
							hasFalse = true
							pred := bp.Block().Preds[k]
							if iff, isIf := pred.Instrs[len(pred.Instrs)-1].(*ssa.If); isIf {
								cond := iff.Cond
								for {
									u, isU := cond.(*ssa.UnOp)
									if !isU || u.Op != token.NOT {
										break
									}
									cond = u.X
								}
								if cond == ssa.Value(phi) {
									dependsOnOld = true
								}
							}
						} else if e == ssa.Value(phi) {
							dependsOnOld = true
						}
					}
					sticky = hasFalse && dependsOnOld
				}
				if bo, isB := back.(*ssa.BinOp); isB && bo.Op == token.AND && (bo.X == ssa.Value(phi) || bo.Y == ssa.Value(phi)) {
					sticky = true
				}
				if !usedOutside {
					continue
				}
				why := "once false the accumulator stays false"
				if !sticky {
					why = "the accumulator is overwritten in every iteration without looking at its old value: only the last element decides. In ensureSorted this skips the waiting pass while an earlier segment is still unsorted (binary search on unsorted data: missing and duplicated keys)"
				}
				o.add(fn, "all-of accumulator "+phi.Comment, c.instrPos(phi), sticky, why)
			}
		}
	}
	return o.list
}

// paramIndexOf: v is (a copy of) parameter #k of f; -1 otherwise.
func paramIndexOf(f *ssa.Function, v ssa.Value) int {
	for _, og := range origins(v) {
		for k, p := range f.Params {
			if og == ssa.Value(p) {
				return k
			}
		}
	}
	return -1
}
