package main

type selftestResult struct {
	Applicable    int      `json:"mutants_applicable"`
	Killed        int      `json:"mutants_killed"`
	NotApplicable []string `json:"not_applicable"`
	Survived      []string `json:"survived"`
	KilledIDs     []string `json:"killed"`
}

func runSelftest(rs []*Rule, jobs int, filter string) selftestResult { return selftestResult{} }

func runSelftestCLI() int { return 0 }
