package main

// selftest.go: the checker's own test – a corpus of behaviour-breaking,
// still-compiling mutants of the *current* tree.  Each is written to a
// scratch copy outside /repo and /verif, analysed in a fresh process, and
// must be reported with the mutated construct's rule.  The self-test
// measures the checker; it never contributes to a property verdict.

import (
	"bufio"
	"bytes"
	"encoding/json"
	"fmt"
	"io"
	"os"
	"os/exec"
	"path/filepath"
	"sort"
	"strings"
	"sync"
)

// Mutant is one textual rewrite of a production file. Text matching is used
// here only to *produce* test inputs for the checker, never to decide.
type Mutant struct {
	ID    string
	Rules []string // the rule(s) expected to report it (any of them)
	File  string
	// After: the replacement is applied to the first occurrence of Old that
	// follows the first occurrence of After ("" = start of file).
	After string
	Old   string
	New   string
	// Expect: substring that must occur in the key of a new violation ("" = any).
	Expect string
	Note   string
	// More: further replacements (each in its own file) applied with the first.
	More []Edit
}

// Edit is one additional textual replacement of a multi-site mutant.
type Edit struct {
	File, Old, New string
}

type selftestResult struct {
	Applicable    int      `json:"mutants_applicable"`
	Killed        int      `json:"mutants_killed"`
	NotApplicable []string `json:"not_applicable"`
	Survived      []string `json:"survived"`
	KilledIDs     []string `json:"killed"`
	Positive      []string `json:"positive_controls,omitempty"`
}

func copyTree(src, dst string) error {
	entries, err := os.ReadDir(src)
	if err != nil {
		return err
	}
	if err := os.MkdirAll(dst, 0o755); err != nil {
		return err
	}
	for _, e := range entries {
		n := e.Name()
		if e.IsDir() {
			continue
		}
		if !(strings.HasSuffix(n, ".go") || n == "go.mod" || n == "go.sum") || strings.HasSuffix(n, "_test.go") {
			continue
		}
		in, err := os.Open(filepath.Join(src, n))
		if err != nil {
			return err
		}
		out, err := os.Create(filepath.Join(dst, n))
		if err != nil {
			in.Close()
			return err
		}
		_, err = io.Copy(out, in)
		in.Close()
		out.Close()
		if err != nil {
			return err
		}
	}
	return nil
}

func applyMutant(dir string, m Mutant) (bool, error) {
	p := filepath.Join(dir, m.File)
	b, err := os.ReadFile(p)
	if err != nil {
		return false, nil // file gone: not applicable
	}
	s := string(b)
	start := 0
	if m.After != "" {
		k := strings.Index(s, m.After)
		if k < 0 {
			return false, nil
		}
		start = k
	}
	k := strings.Index(s[start:], m.Old)
	if k < 0 {
		return false, nil
	}
	k += start
	s = s[:k] + m.New + s[k+len(m.Old):]
	if err := os.WriteFile(p, []byte(s), 0o644); err != nil {
		return true, err
	}
	for _, e := range m.More {
		ok, err := applyMutant(dir, Mutant{File: e.File, Old: e.Old, New: e.New})
		if !ok || err != nil {
			return ok, err
		}
	}
	return true, nil
}

// dumpViolations runs this binary's -dump on dir and returns violated keys by rule.
func dumpViolations(dir string, ruleIDs []string) (map[string]string, string, error) {
	exe, err := os.Executable()
	if err != nil {
		return nil, "", err
	}
	cmd := exec.Command(exe, "-dump", "-json", "-repo", dir, "-rules", strings.Join(ruleIDs, ","))
	var out, errb bytes.Buffer
	cmd.Stdout = &out
	cmd.Stderr = &errb
	runErr := cmd.Run()
	viol := map[string]string{}
	sc := bufio.NewScanner(&out)
	sc.Buffer(make([]byte, 1<<20), 1<<24)
	broken := ""
	for sc.Scan() {
		line := sc.Text()
		if strings.HasPrefix(line, "CHECK-BROKEN") {
			broken = line
			continue
		}
		if !strings.HasPrefix(line, "{") {
			continue
		}
		var o Ob
		if json.Unmarshal([]byte(line), &o) == nil && o.Verdict != Holds {
			viol[o.Key] = o.Rule
		}
	}
	if broken != "" {
		return viol, broken + " " + lastLines(errb.String(), 3), nil
	}
	if runErr != nil {
		return viol, "exit: " + runErr.Error(), nil
	}
	return viol, "", nil
}

func lastLines(s string, n int) string {
	l := strings.Split(strings.TrimSpace(s), "\n")
	if len(l) > n {
		l = l[len(l)-n:]
	}
	return strings.Join(l, " | ")
}

func runSelftest(rs []*Rule, jobs int, filter string) selftestResult {
	want := map[string]bool{}
	var ruleIDs []string
	for _, r := range rs {
		want[r.ID] = true
		ruleIDs = append(ruleIDs, r.ID)
	}
	var sel []Mutant
	for _, m := range mutants {
		if filter != "" {
			hit := false
			for _, part := range strings.Split(filter, ",") {
				if part != "" && strings.Contains(m.ID, part) {
					hit = true
				}
			}
			if !hit {
				continue
			}
		}
		for _, r := range m.Rules {
			if want[r] {
				sel = append(sel, m)
				break
			}
		}
	}
	res := selftestResult{}
	if len(sel) == 0 {
		return res
	}
	base, err := os.MkdirTemp("", "mosslint-selftest-")
	if err != nil {
		broken("selftest: %v", err)
	}
	defer os.RemoveAll(base)

	// baseline: violations already present on the unmutated tree
	baseline, brk, err := dumpViolations(*flagRepo, ruleIDs)
	if err != nil || brk != "" {
		broken("selftest baseline: %v %s", err, brk)
	}

	var mu sync.Mutex
	var wg sync.WaitGroup
	sem := make(chan struct{}, jobs)
	for _, m := range sel {
		m := m
		wg.Add(1)
		sem <- struct{}{}
		go func() {
			defer wg.Done()
			defer func() { <-sem }()
			dir := filepath.Join(base, m.ID)
			defer os.RemoveAll(dir)
			if err := copyTree(*flagRepo, dir); err != nil {
				mu.Lock()
				res.NotApplicable = append(res.NotApplicable, m.ID+": copy failed: "+err.Error())
				mu.Unlock()
				return
			}
			ok, err := applyMutant(dir, m)
			if err != nil || !ok {
				mu.Lock()
				res.NotApplicable = append(res.NotApplicable, m.ID+": edit site not present in the current tree")
				mu.Unlock()
				return
			}
			viol, brk, err := dumpViolations(dir, ruleIDs)
			mu.Lock()
			defer mu.Unlock()
			if err != nil {
				res.NotApplicable = append(res.NotApplicable, m.ID+": "+err.Error())
				return
			}
			if strings.Contains(brk, "does not type-check") || strings.Contains(brk, "package errors") {
				res.NotApplicable = append(res.NotApplicable, m.ID+": mutant does not compile on the current tree")
				return
			}
			res.Applicable++
			killed := false
			for k, rule := range viol {
				if _, pre := baseline[k]; pre {
					continue
				}
				if !contains(m.Rules, rule) {
					continue
				}
				if m.Expect != "" && !strings.Contains(k, m.Expect) {
					continue
				}
				killed = true
			}
			if brk != "" && !killed {
				// a checker that stops with CHECK-BROKEN did not report the construct
				res.Survived = append(res.Survived, m.ID+" ("+brk+")")
				return
			}
			if killed {
				res.Killed++
				res.KilledIDs = append(res.KilledIDs, m.ID)
			} else {
				res.Survived = append(res.Survived, m.ID)
			}
		}()
	}
	wg.Wait()
	sort.Strings(res.NotApplicable)
	sort.Strings(res.Survived)
	sort.Strings(res.KilledIDs)
	return res
}

func runSelftestCLI() int {
	rs := selectedRules()
	res := runSelftest(rs, *flagJobs, *flagMutants)
	b, _ := json.MarshalIndent(res, "", " ")
	fmt.Println(string(b))
	if len(res.Survived) > 0 {
		return 1
	}
	return 0
}
