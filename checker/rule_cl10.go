package main

// CL-10: wake-ups of waiting writers / the persister are broadcasts and depend on presence only (C16).

import (
	"go/token"

	"golang.org/x/tools/go/ssa"
)

func init() {
	register(&Rule{
		ID: "CL-10",
		Doc: "Waiters are woken unconditionally: every wake-up on a condition variable of the collection is a Broadcast (several writers can wait on stackDirtyTopCond; Signal wakes one and " +
			"strands the rest), and the branch conditions its execution depends on are nil tests only (the presence of a section), never a content measure, a counter or a comparison of " +
			"sizes. A writer blocked on back-pressure re-evaluates its own predicate after every wake-up, so an unconditional Broadcast is always safe; a Broadcast that is skipped because " +
			"the waker's idea of 'full' differs from the waiter's (len(top.a) versus height(), which counts child stacks) leaves ExecuteBatch blocked on an idle collection.",
		Props: []string{"C16"},
		Floor: 3,
		Run:   ruleCL10,
	})
}

func ruleCL10(c *Ctx) []*Ob {
	o := newObs(c, "CL-10")
	for _, f := range c.Funcs {
		if c.isHarness(f) {
			continue
		}
		fn := c.fname(f)
		eachInstr(f, func(i ssa.Instruction) {
			for _, m := range []string{"Broadcast", "Signal"} {
				cf, ok := isCondCall(i, m)
				if !ok || cf == nil || c.FieldOwner(cf) != "collection" {
					continue
				}
				if m == "Signal" {
					o.add(fn, "wake-up of "+cf.Name()+" is a Broadcast", c.instrPos(i), false,
						"Signal wakes a single waiter: with several writers blocked on back-pressure (or the persister and Close both relying on the wake-up) the others stay blocked although their condition changed")
					continue
				}
				bad := ""
				for _, iff := range controllingIfs(i) {
					cond := iff.Cond
					for {
						if u, isU := cond.(*ssa.UnOp); isU && u.Op == token.NOT {
							cond = u.X
							continue
						}
						break
					}
					cmp, isCmp := cond.(*ssa.BinOp)
					if isCmp && (cmp.Op == token.EQL || cmp.Op == token.NEQ) && (isNilConst(cmp.X) || isNilConst(cmp.Y)) {
						continue
					}
					bad = c.instrPos(iff)
				}
				if bad == "" {
					o.add(fn, "Broadcast of "+cf.Name()+" depends on presence only", c.instrPos(i), true, "unconditional, or behind nil tests only")
				} else {
					o.add(fn, "Broadcast of "+cf.Name()+" depends on presence only", c.instrPos(i), false,
						"the wake-up is skipped on a condition other than a nil test ("+bad+"): when the waker's condition and the waiter's predicate disagree (child-only batches, counters) the waiter is never woken")
				}
			}
		})
	}
	return o.list
}
