#!/bin/bash
# usage: verify_seed.sh <PROP> <N> : independently confirms a seeded change delivered in /tmp/seed/<PROP>/out
# (demo passes without the patch, patch applies+builds, demo fails with it, existing suite still passes with it)
# and stores it as /verif/seeded/<PROP>-<N>/.
set -u
export GOFLAGS=-mod=mod GOPROXY=off GOSUMDB=off GOTOOLCHAIN=local
PROP=$1; N=$2
SRC=${SEEDDIR:-/tmp/seed}/$PROP/out
DST=/verif/seeded/$PROP-$N${SUFFIX:-}
W=/tmp/scratch/vs.$PROP.$N${SUFFIX:-}
rm -rf $W; git -C /repo worktree add -q --detach $W ${BASE:-HEAD} || exit 2
trap "git -C /repo worktree remove --force $W" EXIT
cd $W
cp $SRC/demo${N}_test.go zz_demo${N}_test.go
T0=$(go test ${RACE:+-race} -vet=off -count=1 -timeout 10m -run "TestZZDemo${N}" . 2>&1 | tail -3); R0=$?
echo "$T0" | grep -q "^ok" && D0=PASS || D0=FAIL
git apply $SRC/patch${N}.diff || { echo "patch does not apply"; exit 2; }
go build ./... || { echo "does not build"; exit 2; }
T1=$(go test ${RACE:+-race} -vet=off -count=1 -timeout 10m -run "TestZZDemo${N}" . 2>&1 | tail -5)
echo "$T1" | grep -q "^ok" && D1=PASS || D1=FAIL
rm zz_demo${N}_test.go
T2=$(go test -vet=off -count=1 -timeout 25m ./... 2>&1 | tail -3)
echo "$T2" | grep -q "^ok" && S=PASS || S=FAIL
if [ "$S" = FAIL ]; then   # one retry: two timing-based tests are flaky under load on the unchanged tree too
  T2b=$(go test -vet=off -count=1 -timeout 25m ./... 2>&1 | tail -3)
  echo "$T2b" | grep -q "^ok" && S="PASS(on retry; first: $(echo $T2 | head -c 200))" 
fi
echo "$PROP-$N demo_without=$D0 demo_with=$D1 suite_with=$S"
mkdir -p $DST
cp $SRC/patch${N}.diff $DST/patch.diff
cp $SRC/demo${N}_test.go $DST/demo_test.go.txt
python3 - "$PROP" "$N" "$D0" "$D1" "$S" <<'PY'
import json,sys
prop,n,d0,d1,s=sys.argv[1:6]
import os as _os
src=json.load(open(_os.environ.get('SEEDDIR','/tmp/seed')+f'/{prop}/out/meta{n}.json'))
import os,subprocess
base=os.environ.get('BASE','HEAD')
basec=subprocess.run(['git','-C','/repo','rev-parse','--short',base],capture_output=True,text=True).stdout.strip()
head_ok=subprocess.run(['git','-C','/repo','apply','--check',_os.environ.get('SEEDDIR','/tmp/seed')+f'/{prop}/out/patch{n}.diff'],capture_output=True).returncode==0
meta={"property":prop,"written_against_commit":basec,"applies_to_current_head":head_ok,"breaks":src.get("summary"),"needs_to_manifest":src.get("needs_to_manifest"),
 "files_changed":src.get("files_changed"),
 "confirmed_by_me":{"commands":["git worktree add <scratch> HEAD","cp demo -> zz_demoN_test.go; go test -run TestZZDemoN .  (unchanged tree)","git apply patch.diff; go build ./...","go test -run TestZZDemoN .  (with the change)","go test -vet=off -count=1 -timeout 25m ./...  (existing suite with the change, demo removed)"],
   "demo_without_change":d0,"demo_with_change":d1,"existing_suite_with_change":s},
 "author":"independent sub-agent given only the property text (no access to /verif)"}
meta['round']=2 if _os.environ.get('SUFFIX') else 1
json.dump(meta,open(f'/verif/seeded/{prop}-{n}'+_os.environ.get('SUFFIX','')+'/meta.json','w'),indent=1)
PY
