#!/bin/bash
# usage: check_benign.sh [pattern] : applies each behaviour-preserving refactoring in /verif/benign/*.diff (written by
# independent sub-agents, each verified against the existing suite) to a scratch worktree of the newest /repo commit it
# applies to (HEAD first, then the commits the batches were written against) and runs every rule; a benign patch must
# produce NO new violated obligation (w.r.t. that commit) and no CHECK-BROKEN. Prints one line per patch.
set -u
export GOFLAGS=-mod=mod GOPROXY=off GOSUMDB=off GOTOOLCHAIN=local
mkdir -p /tmp/scratch
B=/tmp/scratch/benign_base.$$
bad=0
declare -A basev
for P in /verif/benign/*${1:-}*.diff; do
  n=$(basename $P .diff)
  used=""
  for C in HEAD 15101ea d2f65d1 d66a386 2e99453; do
    rm -rf $B; git -C /repo worktree prune; git -C /repo worktree add -q --detach $B $C 2>/dev/null || continue
    if ( cd $B && git apply "$P" 2>/dev/null ); then used=$C; break; fi
    git -C /repo worktree remove --force $B
  done
  if [ -z "$used" ]; then echo "$n: applies to no known commit (skipped)"; continue; fi
  key=$(git -C /repo rev-parse --short $used)
  if [ -z "${basev[$key]:-}" ]; then
    ( cd $B && git checkout -q -- . && git clean -fdq )
    /verif/bin/mosslint -dump -json -repo $B 2>/dev/null | grep '"verdict":"violated"' | sed 's/.*"key":"\([^"]*\)".*/\1/' | sort > /tmp/scratch/bb.$key.$$
    basev[$key]=1
    ( cd $B && git apply "$P" )
  fi
  ( cd $B && go build ./... ) >/dev/null 2>&1 || { echo "$n: does not build"; git -C /repo worktree remove --force $B; continue; }
  /verif/bin/mosslint -dump -json -repo $B > /tmp/scratch/bo.$$ 2>&1
  grep '"verdict":"violated"' /tmp/scratch/bo.$$ | sed 's/.*"key":"\([^"]*\)".*/\1/' | sort > /tmp/scratch/bm.$$
  # a violation the base already had (a defect repaired in a later commit) that the refactoring merely moved into another
  # function is not new: drop new keys whose rule|construct equals that of a base violation that disappeared
  new=$(python3 - /tmp/scratch/bb.$key.$$ /tmp/scratch/bm.$$ <<'PY'
import sys
b=set(open(sys.argv[1]).read().split('\n'))-{''}; m=set(open(sys.argv[2]).read().split('\n'))-{''}
gone={(k.split('|')[0],k.split('|')[-1].split('#')[0]) for k in b-m}
out=[k for k in sorted(m-b) if (k.split('|')[0],k.split('|')[-1].split('#')[0]) not in gone]
print(';'.join(out)+(';' if out else ''),end='')
PY
)
  brk=$(grep -c CHECK-BROKEN /tmp/scratch/bo.$$)
  at=""; [ "$used" != HEAD ] && at=" (on $key)"
  if [ -n "$new" ] || [ "$brk" != 0 ]; then echo "$n: FALSE ALARM$at new=[$new] broken=$brk"; bad=1; else echo "$n: silent$at"; fi
  git -C /repo worktree remove --force $B
done
rm -f /tmp/scratch/bb.*.$$ /tmp/scratch/bm.$$ /tmp/scratch/bo.$$
exit $bad
