#!/bin/bash
# usage: check_benign.sh [pattern] : applies each behaviour-preserving refactoring in /verif/benign/*.diff (written by
# independent sub-agents, each verified against the existing suite) to a scratch worktree of /repo HEAD and runs every
# rule; a benign patch must produce NO new violated obligation and no CHECK-BROKEN. Prints one line per patch.
set -u
export GOFLAGS=-mod=mod GOPROXY=off GOSUMDB=off GOTOOLCHAIN=local
mkdir -p /tmp/scratch
B=/tmp/scratch/benign_base.$$
git -C /repo worktree add -q --detach $B HEAD || exit 2
/verif/bin/mosslint -dump -json -repo $B 2>/dev/null | grep '"verdict":"violated"' | sed 's/.*"key":"\([^"]*\)".*/\1/' | sort > /tmp/scratch/bb.$$
bad=0
for P in /verif/benign/*${1:-}*.diff; do
  n=$(basename $P .diff)
  git -C $B checkout -q -- . ; git -C $B clean -fdq
  if ! ( cd $B && git apply "$P" 2>/dev/null ); then echo "$n: does not apply to HEAD (skipped)"; continue; fi
  ( cd $B && go build ./... ) >/dev/null 2>&1 || { echo "$n: does not build"; continue; }
  /verif/bin/mosslint -dump -json -repo $B > /tmp/scratch/bo.$$ 2>&1
  grep '"verdict":"violated"' /tmp/scratch/bo.$$ | sed 's/.*"key":"\([^"]*\)".*/\1/' | sort > /tmp/scratch/bm.$$
  new=$(comm -13 /tmp/scratch/bb.$$ /tmp/scratch/bm.$$ | tr '\n' ';')
  brk=$(grep -c CHECK-BROKEN /tmp/scratch/bo.$$)
  if [ -n "$new" ] || [ "$brk" != 0 ]; then echo "$n: FALSE ALARM new=[$new] broken=$brk"; bad=1; else echo "$n: silent"; fi
done
git -C /repo worktree remove --force $B
rm -f /tmp/scratch/bb.$$ /tmp/scratch/bm.$$ /tmp/scratch/bo.$$
exit $bad
