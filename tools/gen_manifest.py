#!/usr/bin/env python3
"""Regenerates /verif/MANIFEST.json from the table below (kept next to the checker so
that the claim texts and the rule lists stay in one place)."""
import json, subprocess, sys

SETUP = ("mkdir -p /verif/bin && cd /verif/checker && env -u GOWORK GOFLAGS=-mod=mod GOPROXY=off GOSUMDB=off "
         "GOTOOLCHAIN=local go build -o /verif/bin/mosslint .")

# property -> (rules, decided, not decided)
CLAIMS = json.load(open('/verif/tools/claims.json'))
NA = json.load(open('/verif/tools/not_applicable.json'))

checks = []
for pid in sorted(CLAIMS):
    c = CLAIMS[pid]
    checks.append({
        "property_id": pid,
        "quick_cmd": f"/verif/bin/mosslint -property {pid} -tier quick",
        "thorough_cmd": f"/verif/bin/mosslint -property {pid} -tier thorough",
        "evidence_file": f"/verif/evidence/{pid}.json",
        "replay_cmd_template": "/verif/bin/mosslint -replay {path}",
        "engine": "mosslint",
        "level_claimed": {
            "category": "other",
            "text": c["text"],
            "design_ref": c.get("design_ref", "DESIGN.md §3, §4 " + pid),
        },
        "level_note": c["note"],
        "technique": c["technique"],
    })

m = {
    "version": 1,
    "setup_cmd": SETUP,
    "hooks": {
        "guard": "verif",
        "enable": "none needed: the static checker reads /repo's working tree as it is; there are no hook commits",
        "baseline_off_cmd": "cd /repo && go test -vet=off -count=1 -timeout 25m ./...",
        "source_commits": [],
        "add_only": True,
    },
    "engines": [{
        "name": "mosslint", "path": "/verif/checker",
        "serves_properties": sorted(CLAIMS),
        "kind_free_text": "repository-specific static analyser over go/types + go/ssa (x/tools v0.29.0): dominance/path walks, error-value flow, lockset dataflow, who-may-write, call-graph guard reachability; mutant self-test in the thorough tier",
    }],
    "checks": checks,
    "not_applicable": NA,
    "notes": "All claims are level 'other': each check decides named structural necessary conditions of its property from /repo's current source (see DESIGN.md); none runs moss. Genuine defects found are in known_findings.json (fixed: commits in /repo; known: KNOWN-FINDING lines).",
}
json.dump(m, open('/verif/MANIFEST.json', 'w'), indent=1)
print("wrote MANIFEST.json with", len(checks), "checks,", len(NA), "not applicable")
