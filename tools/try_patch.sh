#!/bin/bash
# usage: try_patch.sh <patch.diff> : applies the patch to a scratch worktree of /repo HEAD,
# runs every rule, prints the violations that are new w.r.t. the unpatched tree.
set -u
P=$1
W=/tmp/scratch/trypatch.$$
git -C /repo worktree add -q --detach $W ${BASE:-HEAD} || exit 2
trap "git -C /repo worktree remove --force $W" EXIT
( cd $W && git apply "$P" ) || { echo "PATCH DOES NOT APPLY"; exit 2; }
( B=/tmp/scratch/trybase.$$; git -C /repo worktree add -q --detach $B ${BASE:-HEAD}; /verif/bin/mosslint -dump -json -repo $B 2>/dev/null; git -C /repo worktree remove --force $B ) | grep '"verdict":"violated"' | sed 's/.*"key":"\([^"]*\)".*/\1/' | sort > /tmp/scratch/base.$$
/verif/bin/mosslint -dump -json -repo $W 2>&1 | tee /tmp/scratch/out.$$ | grep '"verdict":"violated"' | sed 's/.*"key":"\([^"]*\)".*/\1/' | sort > /tmp/scratch/mut.$$
grep CHECK-BROKEN /tmp/scratch/out.$$
echo "--- new violations:"
comm -13 /tmp/scratch/base.$$ /tmp/scratch/mut.$$
rm -f /tmp/scratch/base.$$ /tmp/scratch/mut.$$ /tmp/scratch/out.$$
