#!/bin/bash
# usage: check_patch_allprops.sh <patch> : applies the patch to a scratch worktree of HEAD (or $BASE) and runs
# every claimed property's quick check on it; prints VIOLATION / CHECK-BROKEN lines (nothing = silent).
P=$1
W=/tmp/scratch/cpa.$$
git -C /repo worktree add -q --detach $W ${BASE:-HEAD} || exit 2
trap "git -C /repo worktree remove --force $W" EXIT
( cd $W && git apply "$P" ) || { echo "PATCH DOES NOT APPLY"; exit 2; }
for p in C01 C02 C03 C04 C05 C06 C07 C08 C10 C11 C12 C13 C15 C16 C17 C18 C19 C20; do
  /verif/bin/mosslint -property $p -tier quick -no-evidence -repo $W 2>&1 | grep -E "^VIOLATION|CHECK-BROKEN|: [A-Z0-9-]+: " | sed "s/^/$p: /" | cut -c1-260
done | sort -u -k2
