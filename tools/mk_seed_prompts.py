#!/usr/bin/env python3
# usage: mk_seed_prompts.py <round-dir> [PROP ...] : writes <round-dir>/prompt_<PROP>.txt for the seeding sub-agents
# (a template around the property text; previous seeds of the property are listed as "do not repeat").
import json,sys,os,glob,re
rd=sys.argv[1]; want=sys.argv[2:]
tmpl=open('/tmp/seed2/prompt_C20.txt').read() if False else None
props={}
for l in open('/verif/properties.jsonl'):
    p=json.loads(l); props[p['id']]=p
def proptext(p):
    a=p['anchors']
    s=f"Property {p['id']}: {p['title']}\n\nStatement: {p['statement']}\n\nQuantified over ({', '.join(p['quantifier']['over'])}): {p['quantifier']['text']}\n\nWhy the existing tests cannot settle it: {p['why_tests_cant']}\n\n"
    s+="Code the property is anchored in: files "+", ".join(a['files'])+"\nMechanisms meant to make it hold:\n"
    for m in a.get('mechanism',[]): s+=f"  - {m['name']} ({m['where']})\n"
    s+="State involved:\n"
    for m in a.get('state',[]): s+=f"  - {m['name']}: {m['meaning']} ({m['where']})\n"
    return s
for pid,p in props.items():
    if want and pid not in want: continue
    d=f"{rd}/{pid}"
    prev=[]
    for m in sorted(glob.glob(f'/verif/seeded/{pid}-*/meta.json')):
        j=json.load(open(m)); b=(j.get('breaks') or '')
        prev.append('- '+re.sub(r'\s+',' ',b)[:330])
    prevtxt=''
    if prev:
        prevtxt="Earlier rounds already produced the following seeded changes for this property; yours must use DIFFERENT mechanisms, functions and ideas (do not repeat or vary these):\n"+"\n".join(prev)+"\n\n"
    txt=f"""You are helping test a verification effort for the Go library couchbase/moss (an embeddable ordered key-value store: stack of immutable sorted segments, background merger/persister, append-only mmap'd file store with compaction).

You have your OWN scratch git worktree of the library at {d} (detached HEAD of the current source). Work ONLY inside {d} . Do NOT read, list or modify /repo or /verif or any other /tmp/seed*/ directory - your work must be independent of anything there. Never use `git stash` (the stash is shared between all worktrees of the repository): use `git diff > file`, `git checkout -- .` and `git apply file` instead.

Environment: the sandbox has NO network. For every shell call use:
  export GOFLAGS=-mod=mod GOPROXY=off GOSUMDB=off GOTOOLCHAIN=local
Build: `cd {d} && go build ./...`.  Full existing test suite (takes 1-3 minutes, uses many cores): `go test -vet=off -count=1 -timeout 25m ./...` . Run a single test with `-run`.

Here is a semantic property of moss that is supposed to hold:

-----
{proptext(p)}-----

YOUR TASK: produce TWO different, independent, realistic changes ("seeded bugs") to the library's NON-test source files, each of which
  (a) BREAKS the property above,
  (b) still compiles (`go build ./...`),
  (c) still passes the ENTIRE existing test suite unchanged (you must actually run it with the change applied, once is enough; if a test turns out flaky without your change too, say so),
  (d) comes with a demonstration: a new Go test file (package moss, name it zz_demo<N>_test.go, test function TestZZDemo<N>...) or a small program, which FAILS with the change applied and PASSES on the unchanged source. The demonstration should be deterministic or at least fail reliably (say how often it fails if probabilistic), and should finish within ~1 minute.

Important requirements on the changes:
  - They should look like plausible developer mistakes from a refactoring, optimisation or "cleanup" (a dropped call, a reordered pair of statements, a wrong guard, a lock released too early, an error not propagated, a reference not taken/released, a wrong index/comparison, a forgotten case, ...). Small: typically 1-15 changed lines.
  - They must need something SPECIFIC to manifest: a particular interleaving, a crash or I/O fault at a particular point, a multi-step sequence of operations, an unusual input, a particular option combination, or two cooperating sites that each look fine alone. NOT something that ordinary use exposes at once (and therefore the existing tests do not catch it).
  - The two changes must be in different mechanisms/functions (do not produce two variants of the same edit).
  - Do not change test files, go.mod, or build tags. Do not add new dependencies.

Deliverables, written to {d}/out/ :
  - patch1.diff and patch2.diff : each the output of `git diff` (source change ONLY, relative to the unchanged HEAD, without the demo test file), each applying cleanly on its own to the unchanged HEAD with `git apply`.
  - demo1_test.go and demo2_test.go : the demonstrations (to be copied into the package directory as zz_demo1_test.go / zz_demo2_test.go). NOTE: with *_test.go files in out/, `go test ./...` also tries to build ./out - run the suite with `go test -vet=off -count=1 -timeout 25m .` instead.
  - meta1.json and meta2.json : {{"property": "{pid}", "summary": "...what was changed and why it breaks the property...", "needs_to_manifest": "...the specific interleaving / fault / sequence / input...", "files_changed": [...], "commands_run": [...], "results": {{"build": "...", "existing_suite_with_change": "...pass/fail counts...", "demo_with_change": "FAIL ...", "demo_without_change": "PASS ..."}}}}
At the end, restore your worktree to the unchanged HEAD (`git checkout -- . && git clean -fd -e out`), leaving only the out/ directory. Remove any large temporary files/directories you created.

{prevtxt}Note: a few tests of the existing suite (TestStoreCollHistograms, Test_IdleCompactionThrottle, TestStoreCompactionDeletions) can be flaky under machine load even on unchanged source; rerun once if only those fail. Never use pkill/killall by name (other agents run the same test binary); kill only your own PIDs.

You have about 35 minutes in total: work efficiently, read the relevant source first, pick your two changes, then verify. If after a serious attempt you can only produce one verified change, deliver that one and explain in out/NOTES.txt. Your final message should briefly list what you delivered.
"""
    open(f"{rd}/prompt_{pid}.txt",'w').write(txt)
    print(pid, len(prev))
