#!/usr/bin/env python3
"""For every confirmed seeded change under /verif/seeded: apply it to a scratch worktree of the commit it
was written against, run all mosslint rules on base and base+patch, record the new violations in
meta.json ("detected_by") and print a markdown table."""
import json, os, subprocess, glob, sys
import os as _o
ML=_o.environ.get('ML','/verif/bin/mosslint')
def viol(tree):
    out=subprocess.run([ML,'-dump','-json','-repo',tree],capture_output=True,text=True).stdout
    keys=set()
    for l in out.splitlines():
        if l.startswith('{'):
            o=json.loads(l)
            if o['verdict']!='holds': keys.add(o['key'])
    return keys
basecache={}
rows=[]
# usage: seed_table.py            run every seed and print the table
#        seed_table.py K N        run only the seeds whose index % N == K (for parallel runs; prints nothing useful)
#        seed_table.py --table    print the table from the detected_by fields already recorded
args=sys.argv[1:]
tag=str(os.getpid())
if args and args[0]=='--table':
    for d in sorted(glob.glob('/verif/seeded/*')):
        if not os.path.isdir(d): continue
        meta=json.load(open(d+'/meta.json'))
        new=meta.get('detected_by',[])
        rules=sorted({k.split('|')[0] for k in new})
        rows.append((os.path.basename(d),meta['property'],(meta.get('breaks') or '')[:110].replace('\n',' ').replace('|','/'),', '.join(rules) if rules else '**not detected**'))
    print('| seed | property | change (abridged) | detected by |')
    print('|---|---|---|---|')
    for r in rows: print('| %s | %s | %s | %s |'%r)
    sys.exit(0)
alld=[d for d in sorted(glob.glob('/verif/seeded/*')) if os.path.isdir(d)]
if len(args)==2:
    K,N=int(args[0]),int(args[1]); alld=[d for i,d in enumerate(alld) if i%N==K]
for d in alld:
    meta=json.load(open(d+'/meta.json'))
    base=meta.get('written_against_commit') or '2e99453'
    if base not in basecache:
        w='/tmp/scratch/st_base_'+tag+'_'+base
        subprocess.run(['git','-C','/repo','worktree','add','-q','--detach',w,base],check=True)
        basecache[base]=viol(w)
        subprocess.run(['git','-C','/repo','worktree','remove','--force',w],check=True)
    w='/tmp/scratch/st_mut_'+tag
    subprocess.run(['git','-C','/repo','worktree','add','-q','--detach',w,base],check=True)
    r=subprocess.run(['git','apply',d+'/patch.diff'],cwd=w)
    new=sorted(viol(w)-basecache[base]) if r.returncode==0 else ['PATCH DOES NOT APPLY']
    subprocess.run(['git','-C','/repo','worktree','remove','--force',w],check=True)
    meta['written_against_commit']=base
    meta['detected_by']=new
    json.dump(meta,open(d+'/meta.json','w'),indent=1)
    rules=sorted({k.split('|')[0] for k in new})
    rows.append((os.path.basename(d),meta['property'],(meta.get('breaks') or '')[:110].replace('\n',' ').replace('|','/'),', '.join(rules) if rules else '**not detected**'))
    print(rows[-1][0], rows[-1][3], file=sys.stderr)
print('| seed | property | change (abridged) | detected by |')
print('|---|---|---|---|')
for r in rows: print('| %s | %s | %s | %s |'%r)
